#!/usr/bin/env python3
"""Regenerates MANIFEST.json from the table below (keeps it valid at all times)."""
import json, os

ROOT = os.path.dirname(os.path.abspath(__file__))
ALL = ["C%02d" % i for i in range(1, 21)]

# id -> (level category, technique, level text, level note, design ref)
CLAIMED = {
    "C02": ("exploration",
            "stateful property-based testing (rapid) against a reference vote model",
            "Generated histories of claims (by validators, orchestrators, unbonded and foreign accounts), stake changes, "
            "unbonding and block boundaries run against the real keeper/msg server/EndBlocker; after every block each newly "
            "applied event is checked against a model of who voted what: 100*sum(power now of distinct voters) >= 66*total, "
            "every counted vote was cast and accepted while bonded, rejected claims leave the state hash unchanged. "
            "Exploration is the right level: the property quantifies over histories and power distributions, and the oracle is exact.",
            "Staking is the harness's SimStaking double (power/bonding change at the staking step of EndBlock); wiring copied from app.go for mhub2/oracle/bank/auth/params.",
            "DESIGN.md §4 C02"),
    "C03": ("exploration",
            "stateful property-based testing (rapid) with an applied-event log model",
            "Same histories as C02 with schedules where validators are ahead/behind, repeat or skip nonces and several nonces reach quorum in one block; "
            "checks: nonces applied are consecutive, exactly one accepted record per applied nonce, balances equal the sum of the accepted events applied once, "
            "a validator's accepted claim nonces after the first are consecutive, a non-consecutive or repeated claim is rejected without writes.",
            "Same trusted base as C02; a validator's first claim is not constrained (the module picks its own starting point).",
            "DESIGN.md §4 C03"),
}

NOT_YET = "check not built yet in this round (planned in DESIGN.md §4); not claimed until its machinery exists"


def main():
    cfg = json.load(open(os.path.join(ROOT, "checks.json")))
    checks = []
    for pid in ALL:
        if pid not in CLAIMED or pid not in cfg:
            continue
        cat, tech, text, note, ref = CLAIMED[pid]
        checks.append({
            "property_id": pid,
            "quick_cmd": "./check %s quick" % pid,
            "thorough_cmd": "./check %s thorough" % pid,
            "evidence_file": "/verif/evidence/%s.json" % pid,
            "replay_cmd_template": "./check %s replay {path}" % pid,
            "engine": "harness",
            "level_claimed": {"category": cat, "text": text, "design_ref": ref},
            "level_note": note,
            "technique": tech,
        })
    na = [{"property_id": p, "reason": NOT_YET} for p in ALL if p not in CLAIMED or p not in cfg]
    m = {
        "version": 1,
        "setup_cmd": "./check build",
        "hooks": {
            "guard": "verif",
            "enable": "no source hooks are used; checks build /repo's packages unmodified (go test -c in /verif/harness with replace => /repo/module, /repo/minter-connector)",
            "baseline_off_cmd": "/verif/baseline_off.sh",
            "source_commits": [],
            "add_only": True,
        },
        "engines": [{
            "name": "harness",
            "path": "/verif/harness",
            "serves_properties": [c["property_id"] for c in checks],
            "kind_free_text": "Go module: sim (node-like block lifecycle around the real keepers), world (external chains incl. the real Hub2 bytecode), pbt (rapid glue, replay files, evidence), props (one Test per property); driver /verif/check",
        }],
        "checks": checks,
        "not_applicable": na,
        "notes": "Technique family: property-based testing and fuzzing. Exit 0/1/2 = held / VIOLATION / inconclusive. Fixes of genuine defects are 'fix:' commits in /repo, listed in known_findings.json as fixed.",
    }
    json.dump(m, open(os.path.join(ROOT, "MANIFEST.json"), "w"), indent=1)
    print("MANIFEST.json:", len(checks), "checks,", len(na), "not_applicable")


if __name__ == "__main__":
    main()
