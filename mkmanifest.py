#!/usr/bin/env python3
"""Regenerates MANIFEST.json from the table below (keeps it valid at all times)."""
import json, os

ROOT = os.path.dirname(os.path.abspath(__file__))
ALL = ["C%02d" % i for i in range(1, 21)]

# id -> (level category, technique, level text, level note, design ref)
CLAIMED = {
    "C02": ("exploration",
            "stateful property-based testing (rapid) against a reference vote model",
            "Generated histories of claims (by validators, orchestrators, unbonded and foreign accounts), stake changes, "
            "unbonding and block boundaries run against the real keeper/msg server/EndBlocker; after every block each newly "
            "applied event is checked against a model of who voted what: 100*sum(power now of distinct voters) >= 66*total, "
            "every counted vote was cast and accepted while bonded, rejected claims leave the state hash unchanged. "
            "Exploration is the right level: the property quantifies over histories and power distributions, and the oracle is exact.",
            "Staking is the harness's SimStaking double (power/bonding change at the staking step of EndBlock); wiring copied from app.go for mhub2/oracle/bank/auth/params.",
            "DESIGN.md §4 C02"),
    "C03": ("exploration",
            "stateful property-based testing (rapid) with an applied-event log model",
            "Same histories as C02 with schedules where validators are ahead/behind, repeat or skip nonces and several nonces reach quorum in one block; "
            "checks: nonces applied are consecutive, exactly one accepted record per applied nonce, balances equal the sum of the accepted events applied once, "
            "a validator's accepted claim nonces after the first are consecutive, a non-consecutive or repeated claim is rejected without writes.",
            "Same trusted base as C02; a validator's first claim is not constrained (the module picks its own starting point).",
            "DESIGN.md §4 C03"),
    "C04": ("exploration",
            "stateful property-based testing (rapid): whole-bridge histories, placement/life-cycle invariant after every step",
            "Generated histories (send, cancel, request-batch, auto-batching, deposits, cross-chain transfers, batch execution in any admissible order, "
            "external clock, time jumps, expiry) run against the real msg server and blockers; after every step every transfer id must be in exactly one of "
            "{pool, one batch}, may disappear only through an applied execution of its batch or a refund (cancel by sender / expiry), never reappear, carry a fresh "
            "strictly increasing id, and its reported status must match its place (REFUNDED and BATCH_EXECUTED final).",
            "External chains are the abstract world of harness/bridge/world.go; one send per transaction (status is keyed by tx hash).",
            "DESIGN.md §4 C04"),
    "C05": ("exploration",
            "stateful property-based testing (rapid) with a watchdog: no blocker may panic or deadlock on the cache-wrapped block store",
            "Histories with bursts of 30-120 pool writes per block, amounts up to 2^200, decimals 0..24, tiny commissions, up to 5 validators, hostile external events "
            "(negative/huge fees, unknown tokens, odd receivers) and time jumps; BeginBlocker/EndBlocker of mhub2 and oracle run in a goroutine under a watchdog that "
            "declares a deadlock only for the MemDB write-lock-under-open-iterator signature; a panic in a blocker is a violation, a panic in a message handler is a failed tx. Two further tests run the oracle claim histories with hostile claim contents and the C02/C03 claim histories (conflicts that leave one nonce undecided while the next is agreed, key rotation) and report only failing blockers.",
            "Configuration preconditions kept: every denom is registered on minter and has a price (see DESIGN.md findings d). Deadlock detection is structural, never a time-out.",
            "DESIGN.md §4 C05"),
    "C10": ("exploration",
            "stateful property-based testing (rapid): validity predicate over every newly stored batch",
            "Same histories as C04 with permissionless batch requests at any time, Minter coin ids 1/10/101 and >100 transfers per token; every batch that appears must be "
            "non-empty, <=100 transfers, all of its own chain and token, a top-k-by-fee selection of that token's unbatched transfers (nothing left behind pays more; below the cap nothing is left), "
            "with batch nonce = previous+1 and outgoing sequence (batches and signer sets together) = previous+1.",
            "A batch counts as offered for signing once stored as an outgoing tx.",
            "DESIGN.md §4 C10"),
    "C12": ("exploration",
            "stateful property-based testing (rapid) with an exact-arithmetic refund oracle",
            "Cancel messages by the sender, other users, for batched/unknown/already cancelled ids and expiry around the timeout; a cancel must succeed iff the id is unbatched and the sender matches, "
            "a refused cancel leaves the state hash unchanged, a successful one (or an expiry) removes the entry, sets REFUNDED and pays exactly fromExt(amount+fee+commission) once to the hub sender, "
            "or creates exactly one transfer of that value back to the originating address on the originating chain; nothing is refunded before the timeout.",
            "Exact expiry amounts are compared in EndBlocks without applied external events; internal payout legs of the module's transit account are out of scope.",
            "DESIGN.md §4 C12"),
    "C13": ("exploration",
            "stateful property-based testing (rapid) against the contract's execution rule",
            "Batch histories on ethereum/bsc/minter with several tokens and a generated external clock; whenever a batch leaves the hub without its own execution event the external side must be "
            "unable to execute it now or later (batch nonce <= last executed nonce of its token, or height >= timeout) and the hub must have a reason (observed height beyond the timeout, or a later same-token "
            "batch observed executed); Minter batches are never withdrawn; an observed execution removes exactly that batch and older same-token batches, whose transfers return to the pool.",
            "Contract rule modelled in harness/bridge/world.go (nonce per token increasing, block < timeout; Minter: strict sequence order).",
            "DESIGN.md §4 C13"),
    "C11": ("exploration",
            "property-based testing (rapid) against an exact big-integer reference for conversion, commission tiers and burns",
            "Single-message experiments: withdrawal requests with amounts/fees 1..2^255 (powers of ten/two +-1), decimals 0..24, rates with 18 fractional digits, holder values at every tier boundary +-1 in "
            "three spellings, exact/insufficient balances, wrong or unknown denoms; deposits (SendToHub and TransferToChain->hub). Oracle: debit and burn exactly amount+fee, commission = floor(rate_eff*(amount+fee)) "
            "<= configured rate, scheduled amount = toExt(amount-commission), deposit credit and mint = floor(locked*10^18/10^d); a failed request leaves the state hash unchanged.",
            "Holder lookup semantics as implemented by x/oracle GetHolderValue (documented in the evidence assumptions).",
            "DESIGN.md §4 C11"),
    "C19": ("exploration",
            "property-based testing (rapid): bounds, proportionality and conservation over the payouts of one executed batch",
            "One batch of 1..100 transfers (origins hub/minter/other EVM chain, fee spreads equal/whale/below-average) executed with a generated gas cost, price ratios 1e-9..1e9, decimals 0..24 and 1..9 validators "
            "of any power split; the payouts are read back from the new Minter pool entries and fee records: reimbursement <= fees collected, refunds only to minter-origin users and <= fee paid, commission shares "
            "proportional to power and summing to <= collected, supply growth + new in-flight value <= collected, fee record in [0, fee paid] in external units and = fee - refund where visible exactly.",
            "Proportionality tolerance = truncation of the 2^32 normalisation (total/2^28) + 3 units.",
            "DESIGN.md §4 C19"),
    "C01": ("exploration",
            "stateful property-based testing (rapid): cross-component solvency invariant in exact rationals after every step",
            "Whole-bridge histories in which hub users own only what external deposits brought in (deposits and cross-chain transfers of any amount/fee/destination, decimals 0..24, commissions, holder "
            "discounts, sends, cancels, batch requests, executions limited by each chain's own custody, timeouts, expiry refunds, fee/commission re-minting). After every step and per denom: "
            "supply + value of all in-flight transfers - payouts already made externally but not yet observed <= custody of all external chains; supply never grows in a user message.",
            "Custody is kept by the abstract external chains: a deposit locks exactly the event's Amount (as Hub2.transferToChain / the Minter multisig do), an executed batch pays out its members' amounts. "
            "Governance proposals are outside the quantifier. The Byzantine-minority part of the quantifier is exercised by C14 (claim identity) and C02.",
            "DESIGN.md §4 C01"),
    "C06": ("exploration",
            "metamorphic property-based testing (rapid): the same history executed in several fresh instances must give identical state and events",
            "Whole-bridge histories biased to the map-using paths (several tokens unbatched at even heights, oracle price/holder claims by every validator, cross-chain transfers, executions) are executed "
            "4 times in fresh instances within one process (Go re-randomises every map range); the hash of all mhub2/oracle/bank/auth state and a digest of the ABCI events are compared after every Begin/EndBlock.",
            "Goroutine scheduling is not controlled; map-order nondeterminism shows up with probability >= 1/2 per run pair for a two-key map.",
            "DESIGN.md §4 C06"),
    "C18": ("exploration",
            "stateful property-based testing (rapid) against a reference epoch model with exact weighted-median and two-thirds predicates",
            "Claim histories on SimStaking (1..9 validators of any power): repeated claims with changed values, stale/future epochs, missing or non-positive required prices, extra names, competing holder lists, "
            "stake changes, unbonding, foreign claimers. Prices/holders/epoch may change only in the EndBlock of heights = 0 mod 5, the epoch advances by one, prices change only if distinct claimers hold "
            ">=66% of the power at that moment, every stored price lies between the lower and upper stake-weighted medians of the validators' latest values, a holder list is adopted only with > 2/3 of stake behind the identical list.",
            "SimStaking double; weighted medians computed with exact stakes and with the module's 2^16 normalisation, the wider interval accepted.",
            "DESIGN.md §4 C18"),
    "C07": ("exploration",
            "differential property-based testing (rapid): hub checkpoint vs an independent abi.encode+keccak implementation and vs the real Hub2 bytecode",
            "Signer sets (0..150 members incl. duplicates), batches (0..100 transfers, amounts up to 2^256-1) and contract calls (payload 0..2048 bytes) with gravity ids of 0..32 bytes and nonces/timeouts/powers over the "
            "whole uint64 range: GetCheckpoint must equal keccak256 of a from-scratch ABI encoding; a signature made with NewEthereumSignature must validate for its signer and for no other address, digest or recovery id; "
            "in a third of the cases the real Hub2 contract (constructor checkpoint, updateValset, submitBatch, submitLogicCall) must accept that signature and refuse one over a digest differing in one bit.",
            "The committed bytecode in solidity/contracts/Hub2.go is taken as the compilation of Hub2.sol (no solc offline); the EVM is go-ethereum's core/vm/runtime.",
            "DESIGN.md §4 C07"),
    "C09": ("exploration",
            "stateful property-based testing (rapid) with exact-rational judgement of every published signer set",
            "Validator sets of 1..40 validators (all equal, one with 99%, powers 1..2^56, per-chain key subsets) under power changes around the 5% boundary, unbonding, rebonding and key registration; every newly published "
            "set must contain exactly the bonded validators with a registered key for that chain, powers within one unit of stake*(2^32-1)/total and summing to <= 2^32-1, non-increasing order with a consistent tie-break that "
            "does not depend on input order, nonce = previous+1; after every BeginBlock a set exists and the latest one differs from the current validator set by <= 5% (20*diff <= 2^32-1).",
            "SimStaking double with totals below 2^62.",
            "DESIGN.md §4 C09"),
    "C14": ("exploration",
            "metamorphic property-based testing (rapid): sibling events differing in one field, relevance established by execution on twin instances",
            "For every field of the five event types (and for adjacent variable-length fields shifted across their boundary) a pair of admissible events is generated; both are applied with quorum on twin instances and the pair "
            "counts only when the resulting state differs; such a pair must have different claim hashes. Nine fields/boundaries the current hashes do not cover are recorded as known findings (open) with witnesses; every other field is searched.",
            "Relevance is measured on the state outside the vote records; known findings are matched by (event type, field).",
            "DESIGN.md §4 C14"),
    "C16": ("exploration",
            "stateful property-based testing (rapid) against a reference confirmation set, queries compared after every step",
            "Histories of signer sets, batches, contract calls, executed batches and confirmation messages (unknown tx, tx of another chain, wrong/zero/random claimed signer, validator without key, unbonded, foreign account, "
            "own and foreign orchestrators, duplicates, after the tx is gone); acceptance must match the reference predicate, a refusal leaves the state hash unchanged, and after every step the three confirmation queries and "
            "the three unsigned-tx queries must return exactly the reference sets with the address registered at confirmation time.",
            "Signature bytes are not judged (the statement does not require it). Attribution after key re-registration is a recorded open finding.",
            "DESIGN.md §4 C16"),
    "C17": ("exploration",
            "stateful property-based testing (rapid) with a registry model; invariants and the three lookup queries checked after every step",
            "Registration sequences over 2..4 validators x 3 chains x small key/orchestrator pools (reuse across validators and chains, re-registration, future/stale nonce, foreign key, signature over another validator, "
            "corrupted or replayed signature, unknown validator, another validator's own account as orchestrator), with the ante handler's sequence increment emulated; accepted registrations must have a valid signature over "
            "(validator, sequence-1) and must not take an address or orchestrator currently held by another validator; refusals write nothing; bindings stay injective and consistent across the three indexes; claims sent by an orchestrator are recorded as its validator's vote. A second test runs the real keys-generator binary (built from /repo/keys-generator) and requires the hub to accept its signature for exactly the matching account sequence and validator.",
            "Transaction-level signature checks are the ante handler's; fresh keys must be accepted (completeness is only required for never-used addresses).",
            "DESIGN.md §4 C17"),
    "C20": ("fault_enumeration",
            "property-based generation of Minter block histories (rapid) + exhaustive enumeration of restart points against a reference numbering; property-based testing of command validation",
            "Per generated history (1..14 blocks, several bridge events per block, invalid commands, foreign multisends, edit-multisig with numeric/non-numeric payload) served by a scripted HTTP node, EVERY stored cursor "
            "position x EVERY node height x EVERY acknowledged nonce is restarted through the real minter.GetLatestMinterBlockAndNonce and context.LoadStatus/Commit; the persisted cursor must equal the reference "
            "(next event nonce = start + bridge events at or below last-checked block; batch and valset counters likewise) and the returned in-memory cursor. Command payloads (types, recipients in many spellings, "
            "fee strings around the bound, negative, malformed, huge) must be accepted iff recipient valid for the type and fee a non-negative integer below amount less 1%. A third test hands scanner results to the connector's real CreateClaims (helper binary around minter-connector/cosmos) and requires claims in nonce order with exactly the found values, accepted by the hub, deposits crediting exactly the locked amounts. Torn status files (crash during the rewrite) are enumerated too. A fourth test is compiled into the connector's own package main (go test -overlay/-modfile, /repo untouched) and runs the start-up sequence of main() and the real relayMinterEvents against the scripted node in steps, with restarts and crashes leaving an older status file: every committed claim carries the event's position in the history as nonce and exactly the transaction's content, claims continue where the hub is, nothing is claimed under two nonces, the cursor equals the reference after every step.",
            "The hub acknowledges exactly what the connector committed; tx_committer.Server's queue is drained by the test instead of being broadcast; the persisted state at a crash is the last Commit. One open finding (counters kept when stopping inside a multi-event block) is recorded and enumeration continues past it.",
            "DESIGN.md §4 C20"),
    "C15": ("exploration",
            "round-trip property-based testing (rapid): export -> JSON -> InitGenesis on a fresh instance, per-prefix state comparison plus one differential block",
            "Whole-bridge histories (pool entries, batches, confirmations by every validator, votes in progress, oracle claims) are cut at their last block boundary; the mhub2 and oracle AppModules export to JSON and a "
            "fresh instance imports it; every store prefix of both modules and the params are compared, and the restarted chain must process one further block (claims through every orchestrator, sends by every user) without halting. "
            "Twelve prefixes the export does not carry are recorded as open findings (one key per prefix); any other prefix that differs is a violation.",
            "auth and bank state is carried over verbatim; SimStaking is identical on both sides.",
            "DESIGN.md §4 C15"),
    "C08": ("exploration",
            "stateful property-based testing (rapid) with the real Hub2 bytecode as judge and an independent acceptance predicate",
            "Full-loop histories over 1..6 validators: sends, batch requests, power changes, unbonding, partial signing rounds, relayer submissions of signer-set updates and batches to the real contract (deployed "
            "with the hub's first set, threshold 2863311530) using all / the smallest sufficient / the largest insufficient subset of the confirmations the hub's queries return, external clock, real transferToChain "
            "deposits, contract logs fed back as claims. The contract must accept iff the confirmers' power in ITS current set exceeds the threshold (and the batch is timely and in nonce order); confirmations my record "
            "says were accepted must reach the relayer with usable signatures; recipients receive exactly the amounts; after feeding all events back hub and contract agree on event nonce, signer-set nonce and checkpoint, and no executed batch stays pending. Minter side (second test, compiled into the connector's package main through go test -overlay): every validator runs the connector's loop body (relayMinterEvents, relayBatches, relayValsets) against the hub's real query service over in-memory gRPC and a scripted Minter chain whose multisig account (distinct member signatures, weight sum >= threshold, account nonce in order) is the judge: what the hub records as sufficiently confirmed and next in order must be accepted, every recorded confirmation must be a valid signature over the transaction assembled from the hub's data, nothing under-confirmed or different from the hub's batch / signer set executes, payouts equal the batches' amounts, and at rest hub and chain agree on event nonce, signer set and executed batches.",
            "Hub2 bytecode from solidity/contracts/Hub2.go; log-to-claim mapping hand-ported from the Rust orchestrator; the relayer supplies the contract's true current set and drops signatures that do not verify. Minter's multisig verification is the model in the scripted node; a validator outside the bonded set does not run its connector and resynchronises when it is back.",
            "DESIGN.md §4 C08"),
}

NOT_YET = "check not built yet in this round (planned in DESIGN.md §4); not claimed until its machinery exists"


def main():
    cfg = json.load(open(os.path.join(ROOT, "checks.json")))
    checks = []
    for pid in ALL:
        if pid not in CLAIMED or pid not in cfg:
            continue
        cat, tech, text, note, ref = CLAIMED[pid]
        checks.append({
            "property_id": pid,
            "quick_cmd": "./check %s quick" % pid,
            "thorough_cmd": "./check %s thorough" % pid,
            "evidence_file": "/verif/evidence/%s.json" % pid,
            "replay_cmd_template": "./check %s replay {path}" % pid,
            "engine": "harness",
            "level_claimed": {"category": cat, "text": text, "design_ref": ref},
            "level_note": note,
            "technique": tech,
        })
    na = [{"property_id": p, "reason": NOT_YET} for p in ALL if p not in CLAIMED or p not in cfg]
    m = {
        "version": 1,
        "setup_cmd": "./check build",
        "hooks": {
            "guard": "verif",
            "enable": "no source hooks are used; checks build /repo's packages unmodified (go test -c in /verif/harness with replace => /repo/module, /repo/minter-connector)",
            "baseline_off_cmd": "/verif/baseline_off.sh",
            "source_commits": [],
            "add_only": True,
        },
        "engines": [{
            "name": "harness",
            "path": "/verif/harness",
            "serves_properties": [c["property_id"] for c in checks],
            "kind_free_text": "Go module: sim (node-like block lifecycle around the real keepers), world (external chains incl. the real Hub2 bytecode), pbt (rapid glue, replay files, evidence), props (one Test per property); driver /verif/check",
        }],
        "checks": checks,
        "not_applicable": na,
        "notes": "Technique family: property-based testing and fuzzing. Exit 0/1/2 = held / VIOLATION / inconclusive. Fixes of genuine defects are 'fix:' commits in /repo, listed in known_findings.json as fixed.",
    }
    json.dump(m, open(os.path.join(ROOT, "MANIFEST.json"), "w"), indent=1)
    print("MANIFEST.json:", len(checks), "checks,", len(na), "not_applicable")


if __name__ == "__main__":
    main()
