// Package bridge generates and interprets whole-bridge histories: hub users
// sending, cancelling and requesting batches, external deposits and transfers,
// validators relaying external events, the external chains executing batches
// and signer-set updates, clocks advancing on both sides.
package bridge

import (
	"fmt"
	"math/big"

	"pgregory.net/rapid"

	"verifharness/sim"
)

// ExtChains are the external chains a history can touch (index = Op.C).
var ExtChains = []string{"ethereum", "bsc", "minter"}

// DestChains are the possible destinations of a cross-chain transfer (index = Op.C2).
var DestChains = []string{"ethereum", "bsc", "minter", "hub"}

type Op struct {
	K  string `json:"k"`
	U  int    `json:"u,omitempty"`  // hub user index
	C  int    `json:"c,omitempty"`  // external chain index
	D  int    `json:"d,omitempty"`  // denom index
	A  string `json:"a,omitempty"`  // amount
	F  string `json:"f,omitempty"`  // fee / fee paid
	R  int    `json:"r,omitempty"`  // recipient / pick index
	C2 int    `json:"c2,omitempty"` // destination chain index (transfer)
	N  int    `json:"n,omitempty"`  // count / flag
	T  int64  `json:"t,omitempty"`  // seconds
}

type Case struct {
	// Lazy is a validator (index+1, 0 = none) that claims external events only in explicit catch-up relays.
	Lazy  int        `json:"lazy,omitempty"`
	Cfg   sim.Config `json:"cfg"`
	Funds string     `json:"funds"` // initial balance of every hub user in every denom ("" = none)
	Ops   []Op       `json:"ops"`
	// Rot: delegate-key rotations (MsgDelegateKeys with a fresh orchestrator and external key) applied in one block after
	// the history; only the checks that look at the registry afterwards (C15) execute them.
	Rot []Rot `json:"rot,omitempty"`
	// Gone: validators (indexes) that leave the staking store in that same block (their registry entries stay)
	Gone []int `json:"gone,omitempty"`
}

type Rot struct {
	Val   int `json:"val"`
	Chain int `json:"chain"` // 0 ethereum, 1 bsc, 2 minter
	Orch  int `json:"orch"`  // which spare orchestrator account (their byte order relative to the old one varies)
}

func (o Op) String() string {
	return fmt.Sprintf("%s{u%d c%d d%d a=%s f=%s r%d c2=%d n%d t%d}", o.K, o.U, o.C, o.D, o.A, o.F, o.R, o.C2, o.N, o.T)
}

// GenOpts steers the generator; the zero value is a balanced small history.
type GenOpts struct {
	MinOps, MaxOps int
	Decimals       []uint64 // choices for external decimals (default {18})
	Commissions    []string // choices (default {"0","0.01"})
	MaxVals        int      // default 3
	Denoms         int      // max number of denoms (default 2)
	PrefixIds      bool     // minter coin ids where one is a prefix of another
	BigAmounts     bool     // amounts up to 2^200
	Bursts         bool     // occasional bursts of many sends in one block
	Weights        map[string]int
	TimeoutMs      []uint64 // choices for OutgoingTxTimeout
	EthTimeout     []uint64 // choices for TargetEthTxTimeout (ms)
	NoFunds        bool
	Holders        bool
	Rotations      bool // draw Case.Rot
	// Whale: users own 2^250 of every denom, and amounts / fees / deposits at the edge of what a 255-bit Int holds occur
	// (sums of pooled fees, re-minted refunds and converted values then approach the overflow of the arithmetic)
	Whale bool
	// BlockTimes: draw the average-block-time parameters instead of leaving the defaults
	BlockTimes bool
	// ParamSalt: all remaining parameters get non-default values
	ParamSalt bool
	// ByzHeights: most Byzantine claims lie about the external height
	ByzHeights bool
	// HighCounters: batch nonces / sequences start high (255, 256, 65535 ... are reached within a history)
	HighCounters bool
	// MaybeNoPrices: now and then the oracle holds no prices
	MaybeNoPrices bool
	// SharedAddr: now and then a denom's contract has the same address on ethereum and bsc (deterministic deployments),
	// with decimals drawn per chain as always; and some deposits are reported with the contract address in another
	// letter case than the token list has it (the hub matches ids exactly: such a report is observed and mints nothing)
	SharedAddr bool
	// TopFees: some users own 2^250 and offer fees of 2^248 and more (fees whose 32-byte encoding has no leading zero byte)
	TopFees bool
}

var ethIds = []string{
	"0xA091Bb826756eA25114c512B916754b3fBCb4f63",
	"0x0a180A76e4466bF68A7F86fB029BEd3cCcFaAac5",
	"0xdac17f958d2ee523a2206206994597c13d831ec7",
}
var bscIds = []string{
	"0xf7413144696C5E5502307A8015c6359965CAA725",
	"0x55d398326f99059fF775485246999027B3197955",
	"0xbb4cdb9cbd36b01bd1cbaebf2de08d9173bc095c",
}
var denomNames = []string{"hub", "usdt", "weth"}

func pick(t *rapid.T, label string, xs []string) string {
	return xs[rapid.IntRange(0, len(xs)-1).Draw(t, label)]
}

// GenConfig draws a bridge configuration: every denom lives on minter (the
// commission and fee-refund paths pay out there) and on a subset of
// ethereum/bsc.
func GenConfig(t *rapid.T, o GenOpts) sim.Config {
	if len(o.Decimals) == 0 {
		o.Decimals = []uint64{18}
	}
	if len(o.Commissions) == 0 {
		o.Commissions = []string{"0", "0.01"}
	}
	if o.MaxVals == 0 {
		o.MaxVals = 3
	}
	if o.Denoms == 0 {
		o.Denoms = 2
	}
	cfg := sim.Config{}
	nd := rapid.IntRange(1, o.Denoms).Draw(t, "ndenoms")
	minterIds := []string{"7", "2012", "31"}
	if o.PrefixIds {
		minterIds = []string{"1", "10", "101"}
	}
	id := uint64(1)
	dec := func() uint64 { return o.Decimals[rapid.IntRange(0, len(o.Decimals)-1).Draw(t, "dec")] }
	for d := 0; d < nd; d++ {
		mask := rapid.IntRange(1, 3).Draw(t, "evmchains") // bit0 ethereum, bit1 bsc
		if mask&1 != 0 {
			cfg.Tokens = append(cfg.Tokens, sim.TokenCfg{Id: id, Denom: denomNames[d], Chain: "ethereum", ExtId: ethIds[d], Decimals: dec(), Commission: pick(t, "comm", o.Commissions)})
			id++
		}
		if mask&2 != 0 {
			bid := bscIds[d]
			if o.SharedAddr && mask == 3 && rapid.IntRange(0, 2).Draw(t, "sharedaddr") == 0 {
				bid = ethIds[d]
			}
			cfg.Tokens = append(cfg.Tokens, sim.TokenCfg{Id: id, Denom: denomNames[d], Chain: "bsc", ExtId: bid, Decimals: dec(), Commission: pick(t, "comm", o.Commissions)})
			id++
		}
		cfg.Tokens = append(cfg.Tokens, sim.TokenCfg{Id: id, Denom: denomNames[d], Chain: "minter", ExtId: minterIds[d], Decimals: dec(), Commission: pick(t, "comm", o.Commissions)})
		id++
	}
	nv := rapid.IntRange(1, o.MaxVals).Draw(t, "nvals")
	for i := 0; i < nv; i++ {
		p := rapid.SampledFrom([]int64{1, 1, 2, 3, 10, 100, 1000, 1 << 30}).Draw(t, "power")
		keys := []string{"ethereum", "bsc", "minter"}
		if i > 0 && rapid.IntRange(0, 5).Draw(t, "nominter") == 0 {
			keys = []string{"ethereum", "bsc"}
		}
		cfg.Vals = append(cfg.Vals, sim.ValCfg{Power: p, Bonded: true, Keys: keys})
	}
	cfg.Users = 3
	if len(o.TimeoutMs) > 0 {
		cfg.OutgoingTxTimeoutMs = o.TimeoutMs[rapid.IntRange(0, len(o.TimeoutMs)-1).Draw(t, "txtimeout")]
	} else {
		cfg.OutgoingTxTimeoutMs = rapid.SampledFrom([]uint64{20000, 60000, 20001, 60001, 86400000 - 1}).Draw(t, "txtimeout")
	}
	if len(o.EthTimeout) > 0 {
		cfg.TargetEthTxTimeout = o.EthTimeout[rapid.IntRange(0, len(o.EthTimeout)-1).Draw(t, "ethtimeout")]
	} else {
		cfg.TargetEthTxTimeout = rapid.SampledFrom([]uint64{60000, 150000, 86400000}).Draw(t, "ethtimeout")
	}
	// a short signed-signer-set window lets BeginBlocker prune observed signer sets within a history
	cfg.SignerSetWindow = rapid.SampledFrom([]uint64{1, 3, 10000, 10000}).Draw(t, "sswindow")
	if o.MaybeNoPrices && rapid.IntRange(0, 7).Draw(t, "noprices") == 0 {
		cfg.NoPrices = true // the oracle has not agreed on any price yet: fee payouts of executed batches cannot be computed
	}
	if o.HighCounters {
		// a chain that has been running: batch nonces and sequence numbers around byte and word boundaries
		cfg.StartBatchNonce = rapid.SampledFrom([]uint64{0, 0, 0, 253, 254, 255, 65533, 65534, 4294967294}).Draw(t, "startbatch")
		cfg.StartSequence = rapid.SampledFrom([]uint64{0, 0, 0, 253, 254, 65534}).Draw(t, "startseq")
	}
	if o.ParamSalt {
		cfg.ParamSalt = uint64(rapid.IntRange(1, 500).Draw(t, "paramsalt"))
	}
	if o.BlockTimes {
		// average block times (params): external chains faster and slower than the hub (0 = the defaults 5000 / 15000 / 5000)
		cfg.AvgBlockTime = rapid.SampledFrom([]uint64{0, 0, 1000, 5000, 6000, 20000}).Draw(t, "avgblock")
		cfg.AvgEthBlockTime = rapid.SampledFrom([]uint64{0, 0, 3000, 13000, 15000}).Draw(t, "avgeth")
		cfg.AvgBscBlockTime = rapid.SampledFrom([]uint64{0, 0, 3000, 5000, 400}).Draw(t, "avgbsc")
	}
	prices := []string{"0.001", "1", "3", "1500.5", "250"}
	for d := 0; d < nd; d++ {
		cfg.Prices = append(cfg.Prices, sim.PriceCfg{Name: denomNames[d], Value: pick(t, "price", prices)})
	}
	cfg.Prices = append(cfg.Prices, sim.PriceCfg{Name: "eth", Value: pick(t, "price", prices)}, sim.PriceCfg{Name: "bnb", Value: pick(t, "price", prices)})
	if o.Holders {
		vals := []string{"999999999999999999", "1000000000000000000", "4000000000000000000", "32000000000000000000", "100000000000000000000"}
		for u := 0; u < 3; u++ {
			if rapid.Bool().Draw(t, "holder") {
				a := sim.ExtUser(u).Hex()
				if rapid.Bool().Draw(t, "strip0x") {
					a = a[2:]
				}
				cfg.Holders = append(cfg.Holders, sim.HolderCfg{Addr: a, Value: pick(t, "hval", vals)})
			}
		}
	}
	return cfg
}

func genAmount(t *rapid.T, label string, big200 bool) string {
	k := rapid.IntRange(0, 9).Draw(t, label+"-class")
	switch {
	case k < 4:
		return fmt.Sprint(rapid.Int64Range(1, 5000).Draw(t, label))
	case k < 6:
		e := rapid.IntRange(0, 24).Draw(t, label+"-exp")
		m := rapid.Int64Range(1, 999).Draw(t, label+"-mant")
		return new(big.Int).Mul(big.NewInt(m), new(big.Int).Exp(big.NewInt(10), big.NewInt(int64(e)), nil)).String()
	case k < 9 || !big200:
		return fmt.Sprint(rapid.Int64Range(1, 1<<50).Draw(t, label))
	default:
		b := rapid.IntRange(60, 200).Draw(t, label+"-bits")
		x := new(big.Int).Lsh(big.NewInt(1), uint(b))
		x.Sub(x, big.NewInt(rapid.Int64Range(0, 3).Draw(t, label+"-off")))
		return x.String()
	}
}

// whale values: powers of two near the top of the Int range
func genWhale(t *rapid.T, label string, bits []int) string {
	b := bits[rapid.IntRange(0, len(bits)-1).Draw(t, label+"-wbits")]
	x := new(big.Int).Lsh(big.NewInt(1), uint(b))
	x.Sub(x, big.NewInt(rapid.Int64Range(0, 2).Draw(t, label+"-woff")))
	return x.String()
}

func genFee(t *rapid.T, label string) string {
	k := rapid.IntRange(0, 9).Draw(t, label+"-class")
	switch {
	case k < 2:
		return "0"
	case k < 6:
		return fmt.Sprint(rapid.Int64Range(1, 50).Draw(t, label))
	default:
		return fmt.Sprint(rapid.Int64Range(1, 100000).Draw(t, label))
	}
}

var defaultWeights = map[string]int{
	"send": 30, "cancel": 7, "reqbatch": 7, "deposit": 4, "transfer": 6, "exec": 4,
	"tick": 2, "hb": 1, "relay": 5, "block": 24, "burst": 0, "xexec": 14, "xtick": 7, "send2": 4, "hostile": 0, "oprice": 0, "oholders": 0, "sign": 0, "byz": 0, "xround": 0, "xlag": 0, "xwhale": 0, "ss0": 0, "xbyzexec": 0, "xbyzdep": 0, "xtopfee": 0, "xfull": 0, "xexpire": 0, "xdelist": 0,
}

// GenOps draws the operation list for a configuration.
func GenOps(t *rapid.T, cfg sim.Config, o GenOpts) []Op {
	if o.MaxOps == 0 {
		o.MinOps, o.MaxOps = 12, 80
	}
	w := map[string]int{}
	for k, v := range defaultWeights {
		w[k] = v
	}
	for k, v := range o.Weights {
		w[k] = v
	}
	if o.Bursts && w["burst"] == 0 {
		w["burst"] = 2
	}
	kinds := []string{"send", "cancel", "reqbatch", "deposit", "transfer", "exec", "tick", "hb", "relay", "block", "burst", "xexec", "xtick", "send2", "hostile", "oprice", "oholders", "sign", "byz", "xround", "xlag", "xwhale", "ss0", "xbyzexec", "xbyzdep", "xtopfee", "xfull", "xexpire", "xdelist"}
	total := 0
	for _, k := range kinds {
		total += w[k]
	}
	nd := 0
	seen := map[string]bool{}
	for _, tk := range cfg.Tokens {
		if !seen[tk.Denom] {
			seen[tk.Denom] = true
			nd++
		}
	}
	n := rapid.IntRange(o.MinOps, o.MaxOps).Draw(t, "nops")
	// most of a history happens on one chain and one denom, so that deep states are reached
	focusC := rapid.IntRange(0, 2).Draw(t, "focus-chain")
	focusD := rapid.IntRange(0, nd-1).Draw(t, "focus-denom")
	chainGen := rapid.Custom(func(t *rapid.T) int {
		if rapid.IntRange(0, 9).Draw(t, "onfocus") < 7 {
			return focusC
		}
		return rapid.IntRange(0, 2).Draw(t, "c")
	})
	denomGen := rapid.Custom(func(t *rapid.T) int {
		if rapid.IntRange(0, 9).Draw(t, "onfocusd") < 7 {
			return focusD
		}
		return rapid.IntRange(0, nd-1).Draw(t, "d")
	})
	var ops []Op
	for i := 0; i < n; i++ {
		x := rapid.IntRange(0, total-1).Draw(t, "kind")
		kind := ""
		for _, k := range kinds {
			if x < w[k] {
				kind = k
				break
			}
			x -= w[k]
		}
		op := Op{K: kind}
		switch kind {
		case "send", "send2": // send2 = two sends in one transaction (they share the tx hash)
			op.U = rapid.IntRange(0, 2).Draw(t, "u")
			op.C = chainGen.Draw(t, "c")
			op.D = denomGen.Draw(t, "d")
			op.A = genAmount(t, "amt", o.BigAmounts)
			op.F = genFee(t, "fee")
			op.R = rapid.IntRange(0, 3).Draw(t, "r")
			if o.Whale {
				switch rapid.IntRange(0, 9).Draw(t, "whale") {
				case 0:
					op.F = genWhale(t, "fee", []int{120, 200, 230, 240, 249})
				case 1:
					op.A = genWhale(t, "amt", []int{240, 249, 252, 253})
				}
			}
		case "burst":
			op.U = rapid.IntRange(0, 2).Draw(t, "u")
			op.C = chainGen.Draw(t, "c")
			op.D = denomGen.Draw(t, "d")
			op.N = rapid.SampledFrom([]int{30, 66, 70, 101, 120}).Draw(t, "n")
			op.A = fmt.Sprint(rapid.Int64Range(100, 5000).Draw(t, "amt"))
			op.F = rapid.SampledFrom([]string{"0", "5", "seq"}).Draw(t, "feemode")
			if o.Whale && rapid.IntRange(0, 3).Draw(t, "whale") == 0 {
				op.F = genWhale(t, "fee", []int{200, 230, 240, 243}) // every send of the burst carries it
			}
		case "cancel":
			op.U = rapid.IntRange(0, 2).Draw(t, "u")
			op.C = chainGen.Draw(t, "c")
			op.R = rapid.IntRange(0, 40).Draw(t, "pick")
			op.N = rapid.SampledFrom([]int{0, 0, 0, 1}).Draw(t, "as-stranger")
		case "reqbatch":
			op.U = rapid.IntRange(0, 2).Draw(t, "u")
			op.C = chainGen.Draw(t, "c")
			op.D = denomGen.Draw(t, "d")
		case "deposit":
			op.U = rapid.IntRange(0, 2).Draw(t, "u")
			op.C = chainGen.Draw(t, "c")
			op.D = denomGen.Draw(t, "d")
			op.A = genAmount(t, "amt", o.BigAmounts)
			op.T = lag(t)
			if o.Whale && rapid.IntRange(0, 7).Draw(t, "whale") == 0 {
				op.A = genWhale(t, "amt", []int{250, 253, 254, 255})
			}
			if o.SharedAddr && rapid.IntRange(0, 5).Draw(t, "respelled") == 0 {
				op.N = rapid.IntRange(1, 2).Draw(t, "spelling")
			}
		case "transfer":
			op.C = chainGen.Draw(t, "c")
			op.D = denomGen.Draw(t, "d")
			op.A = genAmount(t, "amt", o.BigAmounts)
			op.F = genFee(t, "fee")
			op.C2 = rapid.IntRange(0, 3).Draw(t, "c2")
			op.R = rapid.IntRange(0, 3).Draw(t, "r")
			op.T = lag(t)
		case "exec":
			op.C = chainGen.Draw(t, "c")
			op.R = rapid.IntRange(0, 7).Draw(t, "pick")
			op.A = genFee(t, "feepaid")
			op.N = rapid.SampledFrom([]int{0, 0, 0, 1}).Draw(t, "valset")
			op.T = lag(t)
		case "byz":
			// the weakest validator (if it holds < 1/3) claims a mutated copy of the next external event first
			op.C = chainGen.Draw(t, "c")
			op.N = rapid.IntRange(0, 6).Draw(t, "mutation")
			if o.ByzHeights && rapid.IntRange(0, 2).Draw(t, "byzheight") > 0 {
				op.N = 6 // the claim differs in the external height only (far in the future)
			}
		case "oprice", "oholders":
			// every validator reports prices / a holders list for the current oracle epoch
			op.R = rapid.IntRange(0, 9).Draw(t, "spread")
			op.N = rapid.IntRange(0, 3).Draw(t, "variant")
		case "hostile":
			// an external event with contents at the edge of what stateless validation admits
			op.C = chainGen.Draw(t, "c")
			op.D = denomGen.Draw(t, "d")
			op.N = rapid.IntRange(0, NumHostile-1).Draw(t, "variant")
			op.R = rapid.IntRange(0, 7).Draw(t, "pick")
			op.A = genAmount(t, "amt", true)
		case "xexec":
			// macro: the external chain executes a batch, validators relay it, the block ends
			op.C = chainGen.Draw(t, "c")
			op.R = rapid.IntRange(0, 7).Draw(t, "pick")
			op.A = genFee(t, "feepaid")
			op.T = rapid.SampledFrom([]int64{1, 5, 5, 21}).Draw(t, "dt")
		case "xwhale":
			// macro: 2^255-scale values against the sums the blockers compute (see interp)
			op.U = rapid.IntRange(0, 2).Draw(t, "u")
			op.C = chainGen.Draw(t, "c")
			op.D = denomGen.Draw(t, "d")
			op.N = rapid.IntRange(0, 1).Draw(t, "variant")
			op.R = rapid.IntRange(0, 11).Draw(t, "r")
			op.T = rapid.SampledFrom([]int64{5, 21, 61, 100000}).Draw(t, "dt")
		case "xlag":
			// macro: quiet stretch, batch, fresh observation, second batch of the token, clock moves (see interp)
			op.U = rapid.IntRange(0, 2).Draw(t, "u")
			op.C = chainGen.Draw(t, "c")
			op.D = denomGen.Draw(t, "d")
			op.A = genAmount(t, "amt", o.BigAmounts)
			op.F = genFee(t, "fee")
			op.R = rapid.IntRange(0, 3).Draw(t, "r")
			op.N = rapid.SampledFrom([]int{3, 6, 9, 12, 20, 30, 45}).Draw(t, "quiet")
			op.C2 = rapid.IntRange(1, 20).Draw(t, "ticks")
		case "xround":
			// macro: N accounts of chain C send to another external chain, batch, execution, observation
			op.C = chainGen.Draw(t, "c")
			op.C2 = rapid.IntRange(0, 1).Draw(t, "c2")
			op.D = denomGen.Draw(t, "d")
			op.N = rapid.IntRange(1, 4).Draw(t, "n")
			op.A = genAmount(t, "amt", o.BigAmounts)
			op.F = genFee(t, "fee")
			op.R = rapid.IntRange(0, 3).Draw(t, "r")
			op.U = rapid.IntRange(0, 2).Draw(t, "paid")
			op.T = rapid.SampledFrom([]int64{1, 5, 5, 21}).Draw(t, "dt")
		case "xtick":
			// macro: the external clock jumps, a heartbeat event reports it, two blocks pass
			op.C = chainGen.Draw(t, "c")
			op.N = rapid.SampledFrom([]int{3, 5, 11, 13, 31, 10000}).Draw(t, "n")
			op.T = rapid.SampledFrom([]int64{1, 5, 5, 21}).Draw(t, "dt")
		case "tick":
			op.C = chainGen.Draw(t, "c")
			op.N = rapid.SampledFrom([]int{1, 2, 5, 10, 50, 10000}).Draw(t, "n")
		case "xbyzexec":
			op.C = chainGen.Draw(t, "c")
			op.R = rapid.IntRange(0, 7).Draw(t, "pick")
			op.A = genFee(t, "feepaid")
			op.N = rapid.IntRange(0, 3).Draw(t, "mutation")
			op.T = rapid.SampledFrom([]int64{5, 21, 61, 100000}).Draw(t, "dt")
		case "xbyzdep":
			op.U = rapid.IntRange(0, 2).Draw(t, "u")
			op.C = chainGen.Draw(t, "c")
			op.D = denomGen.Draw(t, "d")
			op.A = genAmount(t, "amt", o.BigAmounts)
			op.F = genFee(t, "fee")
			op.R = rapid.IntRange(0, 7).Draw(t, "pick")
			op.T = rapid.SampledFrom([]int64{5, 21, 61, 100000}).Draw(t, "dt")
		case "xexpire":
			if rapid.IntRange(0, 11).Draw(t, "expiregate") != 0 {
				op.K, op.T = "block", 5
				break
			}
			op.U = rapid.IntRange(0, 2).Draw(t, "u")
			op.C = chainGen.Draw(t, "c")
			op.D = denomGen.Draw(t, "d")
			op.N = rapid.SampledFrom([]int{300, 400}).Draw(t, "n")
		case "xfull":
			if rapid.IntRange(0, 7).Draw(t, "fullgate") != 0 {
				// 200 transfers are costly to follow step by step: one history in a few dozen carries them
				op.K, op.T = "block", 5
				break
			}
			op.U = rapid.IntRange(0, 2).Draw(t, "u")
			op.C = chainGen.Draw(t, "c")
			op.D = denomGen.Draw(t, "d")
			op.R = rapid.IntRange(0, 3).Draw(t, "r")
		case "xdelist":
			op.U = rapid.IntRange(0, 2).Draw(t, "u")
			op.C = chainGen.Draw(t, "c")
			op.D = denomGen.Draw(t, "d")
			op.R = rapid.IntRange(0, 3).Draw(t, "r")
			op.N = rapid.IntRange(0, 1).Draw(t, "n")
		case "xtopfee":
			op.U = rapid.IntRange(0, 2).Draw(t, "u")
			op.C = chainGen.Draw(t, "c")
			op.D = denomGen.Draw(t, "d")
			op.R = rapid.IntRange(0, 11).Draw(t, "r")
		case "ss0":
			op.C = chainGen.Draw(t, "c")
		case "hb":
			op.C = chainGen.Draw(t, "c")
			op.T = lag(t)
		case "relay":
			op.C = chainGen.Draw(t, "c")
			op.N = rapid.SampledFrom([]int{1, 1, 2, 5, 100}).Draw(t, "n")
			op.R = rapid.SampledFrom([]int{0, 1, 1}).Draw(t, "catchup") // 1 = the lazy validator catches up too
		case "block":
			op.T = rapid.SampledFrom([]int64{1, 5, 5, 5, 6, 19, 20, 21, 61, 100000}).Draw(t, "dt")
		}
		ops = append(ops, op)
	}
	return ops
}

// lag: 0 = the validators relay the new external event at once, 1 = it waits for a relay op.
func lag(t *rapid.T) int64 {
	return rapid.SampledFrom([]int64{0, 0, 0, 1}).Draw(t, "lag")
}

// Prelude makes every external chain report a height once, so that batches get
// a real timeout (the module gives timeout 0 until a first event is observed).
func Prelude() []Op {
	return []Op{{K: "hb", C: 0}, {K: "hb", C: 1}, {K: "hb", C: 2}, {K: "block", T: 5}}
}

// GenCase draws configuration and operations.
func GenCase(o GenOpts) func(t *rapid.T) interface{} {
	return func(t *rapid.T) interface{} {
		cfg := GenConfig(t, o)
		c := &Case{Cfg: cfg}
		if len(cfg.Vals) >= 3 && rapid.IntRange(0, 9).Draw(t, "lazy") < 3 {
			c.Lazy = 1 + rapid.IntRange(1, len(cfg.Vals)-1).Draw(t, "lazyval")
		}
		if !o.NoFunds {
			c.Funds = "1000000000000000000000000000000000000000000000000000000000000000"
			if o.Whale && rapid.IntRange(0, 2).Draw(t, "whale-funds") == 0 {
				c.Funds = new(big.Int).Lsh(big.NewInt(1), 250).String()
			}
			if o.TopFees && rapid.IntRange(0, 1).Draw(t, "topfee-funds") == 0 {
				c.Funds = new(big.Int).Lsh(big.NewInt(1), 250).String()
			}
		}
		if rapid.IntRange(0, 9).Draw(t, "prelude") < 8 {
			c.Ops = Prelude()
		}
		c.Ops = append(c.Ops, GenOps(t, cfg, o)...)
		if o.Rotations && len(cfg.Vals) >= 2 && rapid.IntRange(0, 9).Draw(t, "leave") < 2 {
			c.Gone = append(c.Gone, rapid.IntRange(1, len(cfg.Vals)-1).Draw(t, "gone"))
		}
		if o.Rotations && rapid.IntRange(0, 9).Draw(t, "rotate") < 4 {
			for n := rapid.IntRange(1, 3).Draw(t, "nrot"); n > 0; n-- {
				c.Rot = append(c.Rot, Rot{Val: rapid.IntRange(0, len(cfg.Vals)-1).Draw(t, "rotval"), Chain: rapid.IntRange(0, 2).Draw(t, "rotchain"), Orch: rapid.IntRange(0, 7).Draw(t, "rotorch")})
			}
		}
		return c
	}
}
