package bridge

import (
	"fmt"
	"math/big"
	"sort"
	"strings"
	"time"

	sdk "github.com/cosmos/cosmos-sdk/types"

	mtypes "github.com/MinterTeam/mhub2/module/x/mhub2/types"
)

// AppliedEvents returns the world events the hub applied between two snapshots.
func (it *Interp) AppliedEvents(chain string, pre, post *Snap) []mtypes.ExternalEvent {
	a, b := pre.Chains[chain].LastNonce, post.Chains[chain].LastNonce
	var out []mtypes.ExternalEvent
	for n := a + 1; n <= b && int(n) <= len(it.W[chain].Events); n++ {
		out = append(out, it.W[chain].Events[n-1])
	}
	return out
}

func (it *Interp) timeout() time.Duration {
	return time.Duration(it.H.Cfg.OutgoingTxTimeoutMs) * time.Millisecond
}

func (it *Interp) expired(e *mtypes.SendToExternal) bool {
	return time.Unix(int64(e.CreatedAt), 0).Add(it.timeout()).Before(time.Unix(it.Now, 0))
}

func pow10(n uint64) *big.Int {
	return new(big.Int).Exp(big.NewInt(10), new(big.Int).SetUint64(n), nil)
}

// FromExt converts external units to hub units (18 decimals), truncating.
func FromExt(dec uint64, x *big.Int) *big.Int {
	r := new(big.Int).Mul(x, pow10(18))
	return r.Div(r, pow10(dec))
}

// ToExt converts hub units to external units, truncating.
func ToExt(dec uint64, x *big.Int) *big.Int {
	r := new(big.Int).Mul(x, pow10(dec))
	return r.Div(r, pow10(18))
}

func uniqueHash(h string) bool { return h != "" && !strings.HasPrefix(h, "#") }

// ================================================================ C04

// Placement tracks every outgoing transfer id through its life.
type Placement struct {
	live                     map[string]map[uint64]string // chain -> id -> "pool" | "batch:n"
	terminal                 map[string]map[uint64]string // chain -> id -> "executed" | "refunded"
	lastID                   map[string]uint64
	hashUse                  map[string]int               // tx hash -> number of transfers carrying it
	refundedHash             map[string]bool              // tx hashes under which a refund was reported
	hashOf                   map[string]map[uint64]string // chain -> id -> tx hash (unique ones only)
	Rebatched, Returned, Big int
}

func NewPlacement() *Placement {
	p := &Placement{live: map[string]map[uint64]string{}, terminal: map[string]map[uint64]string{}, lastID: map[string]uint64{}, hashOf: map[string]map[uint64]string{}, hashUse: map[string]int{}, refundedHash: map[string]bool{}}
	for _, c := range ExtChains {
		p.live[c] = map[uint64]string{}
		p.terminal[c] = map[uint64]string{}
		p.hashOf[c] = map[uint64]string{}
	}
	return p
}

func (p *Placement) Step(it *Interp, st *StepInfo) {
	for _, ch := range ExtChains {
		post := st.Post.Chains[ch]
		pre := st.Pre.Chains[ch]
		now := map[uint64]string{}
		entry := map[uint64]*mtypes.SendToExternal{}
		perToken := map[string]int{}
		for _, e := range post.Pool {
			if _, dup := now[e.Id]; dup {
				it.Fail("C04", "in-two-places", "%s: transfer %d appears twice in the pool", ch, e.Id)
				return
			}
			now[e.Id] = "pool"
			entry[e.Id] = e
			perToken[e.Token.ExternalTokenId]++
		}
		for _, b := range post.Batches {
			for _, tx := range b.Transactions {
				if prev, dup := now[tx.Id]; dup {
					it.Fail("C04", "in-two-places", "%s: transfer %d is in %s and in batch %d", ch, tx.Id, prev, b.BatchNonce)
					return
				}
				now[tx.Id] = fmt.Sprintf("batch:%d", b.BatchNonce)
				entry[tx.Id] = tx
			}
		}
		for _, n := range perToken {
			if n > 100 {
				p.Big++
			}
		}
		// which batches were executed by events applied in this step
		executed := map[uint64]bool{}
		for _, ev := range it.AppliedEvents(ch, st.Pre, st.Post) {
			if be, ok := ev.(*mtypes.BatchExecutedEvent); ok {
				executed[be.BatchNonce] = true
			}
		}
		preEntry := map[uint64]*mtypes.SendToExternal{}
		for _, e := range pre.Pool {
			preEntry[e.Id] = e
		}
		preBatchOf := map[uint64]*mtypes.BatchTx{}
		for _, b := range pre.Batches {
			for _, tx := range b.Transactions {
				preEntry[tx.Id] = tx
				preBatchOf[tx.Id] = b
			}
		}
		// disappearances
		for id, place := range p.live[ch] {
			if _, still := now[id]; still {
				continue
			}
			e := preEntry[id]
			why := ""
			switch {
			case st.Phase == "op" && st.Op != nil && st.Op.K == "cancel" && st.Res != nil && st.Res.Err == nil && st.CancelChain == ch && st.CancelID == id && place == "pool":
				why = "refunded"
			case st.Phase == "end" && preBatchOf[id] != nil && executed[preBatchOf[id].BatchNonce]:
				why = "executed"
			case st.Phase == "end" && e != nil && it.expired(e) && (place == "pool" || olderSameTokenExecuted(ch, preBatchOf[id], pre, executed)):
				why = "refunded"
			}
			if why == "" {
				it.Fail("C04", "transfer-vanished", "%s: transfer %d (was in %s) disappeared in phase %s of %v without execution or refund", ch, id, place, st.Phase, st.Op)
				return
			}
			p.terminal[ch][id] = why
			delete(p.live[ch], id)
			if why == "refunded" && e != nil && uniqueHash(e.TxHash) && e.RefundChainId != "" {
				p.refundedHash[e.TxHash] = true
			}
		}
		// the transfers of a batch whose execution was observed in this step were paid out externally: none of them may still
		// sit in the pool or in a batch (from where a timeout would hand it back and a refund pay it a second time)
		for _, b := range pre.Batches {
			if !executed[b.BatchNonce] {
				continue
			}
			for _, tx := range b.Transactions {
				if place, still := now[tx.Id]; still {
					it.Fail("C04", "executed-transfer-still-held", "%s: batch %d was observed executed, its transfer %d is still held in %s", ch, b.BatchNonce, tx.Id, place)
					return
				}
			}
		}
		// appearances and moves
		ids := make([]uint64, 0, len(now))
		for id := range now {
			ids = append(ids, id)
		}
		sort.Slice(ids, func(a, b int) bool { return ids[a] < ids[b] })
		for _, id := range ids {
			place := now[id]
			if old, ok := p.live[ch][id]; ok {
				if old != place {
					if strings.HasPrefix(old, "batch") && place == "pool" {
						p.Returned++
					}
					if old == "pool" && strings.HasPrefix(place, "batch") && p.hashOf[ch][id] == "returned" {
						p.Rebatched++
					}
					if strings.HasPrefix(old, "batch") {
						p.hashOf[ch][id] = "returned"
					}
				}
				p.live[ch][id] = place
				continue
			}
			if t, was := p.terminal[ch][id]; was {
				it.Fail("C04", "resurrected", "%s: transfer %d was %s and is back in %s", ch, id, t, place)
				return
			}
			if id <= p.lastID[ch] {
				it.Fail("C04", "id-not-fresh", "%s: new transfer carries id %d but ids up to %d were already handed out", ch, id, p.lastID[ch])
				return
			}
			p.lastID[ch] = id
			p.live[ch][id] = place
			p.hashUse[entry[id].TxHash]++
		}
		if st.SendOK && st.Op.K == "send" && ExtChains[st.Op.C%3] == ch {
			if _, ok := now[st.NewID]; !ok {
				it.Fail("C04", "accepted-transfer-missing", "%s: send accepted with id %d but the transfer is nowhere", ch, st.NewID)
				return
			}
		}
		// status follows the life-cycle (only for transfers with a tx hash of their own)
		// (read through the TransactionStatus query, which is what users are told)
		// 'refunded' is final, also for a hash shared by several transfers
		for hsh := range p.refundedHash {
			if s := it.ReportedStatus(hsh); s != mtypes.TX_STATUS_REFUNDED {
				it.Fail("C04", "refunded-not-final", "%s: status of tx %s.. was REFUNDED and is now %s", ch, hsh[:12], s)
				return
			}
		}
		for id, e := range entry {
			if !uniqueHash(e.TxHash) || p.hashUse[e.TxHash] != 1 {
				continue // status is keyed by tx hash; transfers sharing one share a status by design
			}
			s := it.ReportedStatus(e.TxHash)
			place := now[id]
			ok := false
			if place == "pool" {
				ok = s == mtypes.TX_STATUS_NOT_FOUND || s == mtypes.TX_STATUS_DEPOSIT_RECEIVED || s == mtypes.TX_STATUS_BATCH_CREATED
			} else {
				ok = s == mtypes.TX_STATUS_BATCH_CREATED
			}
			if !ok {
				it.Fail("C04", "status-lifecycle", "%s: transfer %d is in %s but its status is %s", ch, id, place, s)
				return
			}
		}
		for id, why := range p.terminal[ch] {
			e := preEntry[id]
			if e == nil || !uniqueHash(e.TxHash) || p.hashUse[e.TxHash] != 1 {
				continue
			}
			s := it.ReportedStatus(e.TxHash)
			if why == "executed" && s != mtypes.TX_STATUS_BATCH_EXECUTED {
				it.Fail("C04", "status-lifecycle", "%s: transfer %d was executed but its status is %s", ch, id, s)
				return
			}
			if why == "refunded" && s != mtypes.TX_STATUS_REFUNDED {
				it.Fail("C04", "status-lifecycle", "%s: transfer %d was refunded but its status is %s", ch, id, s)
				return
			}
		}
	}
}

func olderSameTokenExecuted(ch string, b *mtypes.BatchTx, pre *ChainSnap, executed map[uint64]bool) bool {
	if b == nil || ch == "minter" {
		return false
	}
	for _, o := range pre.Batches {
		if executed[o.BatchNonce] && o.ExternalTokenId == b.ExternalTokenId && o.BatchNonce > b.BatchNonce {
			return true
		}
	}
	return false
}

// ================================================================ C10

type BatchForm struct {
	lastNonce   map[string]uint64
	lastSeq     map[string]uint64
	seenSeq     map[string]map[uint64]bool
	Interesting int
}

func NewBatchForm() *BatchForm {
	return &BatchForm{lastNonce: map[string]uint64{}, lastSeq: map[string]uint64{}, seenSeq: map[string]map[uint64]bool{}}
}

func (c *BatchForm) Step(it *Interp, st *StepInfo) {
	for _, ch := range ExtChains {
		pre, post := st.Pre.Chains[ch], st.Post.Chains[ch]
		if c.seenSeq[ch] == nil {
			c.seenSeq[ch] = map[uint64]bool{}
			// the chain's counters start where the genesis put them
			c.lastNonce[ch], c.lastSeq[ch] = it.H.Cfg.StartBatchNonce, it.H.Cfg.StartSequence
		}
		preB := map[uint64]bool{}
		for _, b := range pre.Batches {
			preB[b.BatchNonce] = true
		}
		var fresh []*mtypes.BatchTx
		for _, b := range post.Batches {
			if !preB[b.BatchNonce] {
				fresh = append(fresh, b)
			}
		}
		// candidates: what was unbatched before, plus what a dissolved batch returned
		cands := map[uint64]*mtypes.SendToExternal{}
		for _, e := range pre.Pool {
			cands[e.Id] = e
		}
		postB := map[uint64]bool{}
		for _, b := range post.Batches {
			postB[b.BatchNonce] = true
		}
		for _, b := range pre.Batches {
			if !postB[b.BatchNonce] {
				for _, tx := range b.Transactions {
					cands[tx.Id] = tx
				}
			}
		}
		tokensInPool := map[string]bool{}
		for _, e := range cands {
			tokensInPool[e.Token.ExternalTokenId] = true
		}
		var newSeqs []uint64
		for _, b := range fresh {
			newSeqs = append(newSeqs, b.Sequence)
			if len(b.Transactions) == 0 {
				it.Fail("C10", "empty-batch", "%s: batch %d for token %s offered for signing with no transfers", ch, b.BatchNonce, b.ExternalTokenId)
				return
			}
			if len(b.Transactions) > 100 {
				it.Fail("C10", "oversize-batch", "%s: batch %d holds %d transfers", ch, b.BatchNonce, len(b.Transactions))
				return
			}
			sel := map[uint64]bool{}
			var minFee *big.Int
			for _, tx := range b.Transactions {
				if tx.ChainId != ch {
					it.Fail("C10", "foreign-chain-member", "%s: batch %d contains transfer %d of chain %s", ch, b.BatchNonce, tx.Id, tx.ChainId)
					return
				}
				if tx.Token.ExternalTokenId != b.ExternalTokenId || tx.Fee.ExternalTokenId != b.ExternalTokenId {
					it.Fail("C10", "foreign-token-member", "%s: batch %d for token %q contains transfer %d of token %q", ch, b.BatchNonce, b.ExternalTokenId, tx.Id, tx.Token.ExternalTokenId)
					return
				}
				if cands[tx.Id] == nil {
					it.Fail("C10", "member-not-from-pool", "%s: batch %d contains transfer %d which was not unbatched before", ch, b.BatchNonce, tx.Id)
					return
				}
				if sel[tx.Id] {
					it.Fail("C10", "duplicate-member", "%s: batch %d contains transfer %d twice", ch, b.BatchNonce, tx.Id)
					return
				}
				sel[tx.Id] = true
				f := tx.Fee.Amount.BigInt()
				if minFee == nil || f.Cmp(minFee) < 0 {
					minFee = f
				}
			}
			// highest-fee selection: nothing left behind pays more than the cheapest member,
			// and a batch below the cap leaves nothing of its token behind
			left := 0
			for id, e := range cands {
				if sel[id] || e.Token.ExternalTokenId != b.ExternalTokenId {
					continue
				}
				inOther := false
				for _, o := range fresh {
					if o != b {
						for _, tx := range o.Transactions {
							if tx.Id == id {
								inOther = true
							}
						}
					}
				}
				if inOther {
					continue
				}
				left++
				if e.Fee.Amount.BigInt().Cmp(minFee) > 0 {
					it.Fail("C10", "not-highest-fee", "%s: batch %d (min fee %s) left transfer %d with fee %s unbatched", ch, b.BatchNonce, minFee, id, e.Fee.Amount)
					return
				}
			}
			if left > 0 && len(b.Transactions) < 100 {
				it.Fail("C10", "not-highest-fee", "%s: batch %d holds %d transfers although %d more of its token were unbatched", ch, b.BatchNonce, len(b.Transactions), left)
				return
			}
			// interesting shapes
			n := 0
			for t := range tokensInPool {
				if t != b.ExternalTokenId && (strings.HasPrefix(t, b.ExternalTokenId) || strings.HasPrefix(b.ExternalTokenId, t)) {
					n++
				}
			}
			cnt := 0
			for _, e := range cands {
				if e.Token.ExternalTokenId == b.ExternalTokenId {
					cnt++
				}
			}
			if n > 0 || cnt > 100 {
				c.Interesting++
			}
		}
		// batch nonces: previous+1.. in creation order
		sort.Slice(fresh, func(a, b int) bool { return fresh[a].BatchNonce < fresh[b].BatchNonce })
		for _, b := range fresh {
			if b.BatchNonce != c.lastNonce[ch]+1 {
				it.Fail("C10", "batch-nonce-gap", "%s: new batch has nonce %d, previous batch nonce was %d", ch, b.BatchNonce, c.lastNonce[ch])
				return
			}
			c.lastNonce[ch] = b.BatchNonce
		}
		// outgoing sequence over all kinds
		preSS := map[uint64]bool{}
		for _, s := range pre.SignerSets {
			preSS[s.Nonce] = true
		}
		for _, s := range post.SignerSets {
			if !preSS[s.Nonce] {
				newSeqs = append(newSeqs, s.Sequence)
			}
		}
		sort.Slice(newSeqs, func(a, b int) bool { return newSeqs[a] < newSeqs[b] })
		for _, s := range newSeqs {
			if c.seenSeq[ch][s] {
				it.Fail("C10", "sequence-reused", "%s: outgoing sequence %d handed out twice", ch, s)
				return
			}
			if s != c.lastSeq[ch]+1 {
				it.Fail("C10", "sequence-gap", "%s: new outgoing tx has sequence %d, previous was %d", ch, s, c.lastSeq[ch])
				return
			}
			c.seenSeq[ch][s] = true
			c.lastSeq[ch] = s
		}
	}
}

// ================================================================ C12

type Refunds struct {
	CrossRefund, SecondCancel, Race, ExpiryChecked, CancelOK, CancelBad, LegsLost int
	cancelled                                                                     map[string]bool
}

func NewRefunds() *Refunds { return &Refunds{cancelled: map[string]bool{}} }

func (it *Interp) decimals(chain, ext string) (uint64, bool) {
	t := it.H.TokenByExt(chain, ext)
	if t == nil {
		return 0, false
	}
	return t.Decimals, true
}

func (it *Interp) denomOfToken(id uint64) string {
	for _, t := range it.H.Cfg.Tokens {
		if t.Id == id {
			return t.Denom
		}
	}
	return ""
}

// refundValue is what cancellation/expiry must give back, in hub units.
func (it *Interp) refundValue(chain string, e *mtypes.SendToExternal) *big.Int {
	tot := new(big.Int).Add(e.Token.Amount.BigInt(), e.Fee.Amount.BigInt())
	tot.Add(tot, e.ValCommission.Amount.BigInt())
	d, ok := it.decimals(chain, e.Token.ExternalTokenId)
	if !ok {
		return tot
	}
	return FromExt(d, tot)
}

// mintable: can the refund be minted at all? (re-minting a 2^255-scale amount next to another one would lift the supply
// over what an Int holds; such a refund fails on its own and the transfer stays pooled)
func (it *Interp) mintable(chain string, e *mtypes.SendToExternal) bool {
	denom := it.denomOfToken(e.Token.TokenId)
	sum := new(big.Int).Add(it.H.Supply(denom), it.refundValue(chain, e))
	return sum.BitLen() <= 256
}

func (c *Refunds) checkRefund(it *Interp, st *StepInfo, ch string, e *mtypes.SendToExternal, balDelta map[string]*big.Int, how string) {
	val := it.refundValue(ch, e)
	denom := it.denomOfToken(e.Token.TokenId)
	switch e.RefundChainId {
	case "hub":
		balDelta[e.Sender+"|"+denom] = new(big.Int).Add(orZero(balDelta[e.Sender+"|"+denom]), val)
	case "":
		// internal payout (fee/commission/refund leg): nobody to refund, out of C12's scope
	default:
		c.CrossRefund++
		// exactly one new transfer of that value to RefundAddress on RefundChainId
		rc := e.RefundChainId
		tok := it.H.TokenByDenom(rc, denom)
		if tok == nil {
			return
		}
		want := ToExt(tok.Decimals, val)
		found := 0
		pre := map[uint64]bool{}
		for _, p := range st.Pre.Chains[rc].Pool {
			pre[p.Id] = true
		}
		for _, b := range st.Pre.Chains[rc].Batches {
			for _, tx := range b.Transactions {
				pre[tx.Id] = true
			}
		}
		for _, p := range st.Post.Chains[rc].Pool {
			if !pre[p.Id] && p.ExternalRecipient == e.RefundAddress && p.Token.Amount.BigInt().Cmp(want) == 0 &&
				p.Fee.Amount.IsZero() && p.ValCommission.Amount.IsZero() {
				found++
			}
		}
		if found < 1 {
			it.Fail("C12", "cross-refund-missing", "%s: %s of transfer %d must send %s back to %s on %s, no such new transfer exists", ch, how, e.Id, want, e.RefundAddress, rc)
		}
	}
}

func orZero(x *big.Int) *big.Int {
	if x == nil {
		return new(big.Int)
	}
	return x
}

func (c *Refunds) Step(it *Interp, st *StepInfo) {
	// ---- cancel message
	if st.Phase == "op" && st.Op != nil && st.Op.K == "cancel" && st.Res != nil {
		ch := st.CancelChain
		e := st.Pre.PoolById(ch, st.CancelID)
		shouldOK := e != nil && e.Sender == st.CancelAs
		key := fmt.Sprintf("%s|%d", ch, st.CancelID)
		if c.cancelled[key] {
			c.SecondCancel++
		}
		if len(st.Pre.Places(ch, st.CancelID)) > 0 && e == nil {
			c.Race++
		}
		ok := st.Res.Err == nil
		if ok && !shouldOK {
			c.CancelBad++
			switch {
			case e == nil:
				it.Fail("C12", "cancel-not-in-pool", "%s: cancel of %d succeeded although it is not an unbatched transfer (places %v)", ch, st.CancelID, st.Pre.Places(ch, st.CancelID))
			default:
				it.Fail("C12", "cancel-by-stranger", "%s: %s cancelled transfer %d of %s", ch, st.CancelAs, st.CancelID, e.Sender)
			}
			return
		}
		if !ok && shouldOK && it.mintable(ch, e) {
			it.Fail("C12", "own-cancel-refused", "%s: sender could not cancel its unbatched transfer %d: %v", ch, st.CancelID, st.Res.Err)
			return
		}
		if !ok {
			c.CancelBad++
			if st.Pre.Hash != st.Post.Hash {
				it.Fail("C12", "failed-cancel-wrote", "%s: refused cancel of %d changed state", ch, st.CancelID)
			}
			return
		}
		c.CancelOK++
		c.cancelled[key] = true
		if len(st.Post.Places(ch, st.CancelID)) != 0 {
			it.Fail("C12", "cancel-kept-entry", "%s: transfer %d still present after cancel (%v)", ch, st.CancelID, st.Post.Places(ch, st.CancelID))
			return
		}
		delta := map[string]*big.Int{}
		c.checkRefund(it, st, ch, e, delta, "cancel")
		if it.Failed() {
			return
		}
		c.compareBalances(it, st, delta, "cancel")
		if e.RefundChainId == "hub" && uniqueHash(e.TxHash) {
			if s := it.ReportedStatus(e.TxHash); s != mtypes.TX_STATUS_REFUNDED {
				it.Fail("C12", "refund-status", "%s: transfer %d cancelled but status is %s", ch, st.CancelID, s)
			}
		}
		return
	}
	// ---- expiry sweep
	if st.Phase != "end" {
		return
	}
	quiet := true
	for _, ch := range ExtChains {
		if st.Pre.Chains[ch].LastNonce != st.Post.Chains[ch].LastNonce {
			quiet = false
		}
	}
	// a refund leg (the transfer that carries a cross-chain refund back to its origin) must not be
	// destroyed by the expiry sweep: it has no refund party, its value would be lost for the user
	for _, ch := range ExtChains {
		post := map[uint64]bool{}
		for _, e := range st.Post.Chains[ch].Pool {
			post[e.Id] = true
		}
		for _, b := range st.Post.Chains[ch].Batches {
			for _, tx := range b.Transactions {
				post[tx.Id] = true
			}
		}
		executed := map[uint64]bool{}
		for _, ev := range it.AppliedEvents(ch, st.Pre, st.Post) {
			if be, ok := ev.(*mtypes.BatchExecutedEvent); ok {
				executed[be.BatchNonce] = true
			}
		}
		check := func(e *mtypes.SendToExternal, batch *mtypes.BatchTx) {
			if e.TxHash != "#" || e.RefundChainId != "" || post[e.Id] || it.Failed() {
				return
			}
			if batch != nil && executed[batch.BatchNonce] {
				return
			}
			c.LegsLost++
			it.Fail("C12", "refund-leg-destroyed", "%s: transfer %d carries a cross-chain refund of %s to %s; it expired in the pool and was removed without being sent, the value went to the module account", ch, e.Id, e.Token.Amount, e.ExternalRecipient)
		}
		for _, e := range st.Pre.Chains[ch].Pool {
			check(e, nil)
		}
		for _, b := range st.Pre.Chains[ch].Batches {
			for _, tx := range b.Transactions {
				check(tx, b)
			}
		}
	}
	if it.Failed() {
		return
	}
	delta := map[string]*big.Int{}
	for _, ch := range ExtChains {
		postPool := map[uint64]*mtypes.SendToExternal{}
		for _, e := range st.Post.Chains[ch].Pool {
			postPool[e.Id] = e
			// the party a cancel or an expiry pays back is the one who paid: for a transfer forwarded from another chain, the
			// sender of the TransferToChain event on that chain (found by the event's unique tx hash in the world's own log)
			if w := it.W[e.RefundChainId]; w != nil && e.RefundChainId != ch {
				for _, ev := range w.Events {
					if t, ok := ev.(*mtypes.TransferToChainEvent); ok && t.TxHash == e.TxHash && !strings.EqualFold(strings.TrimPrefix(e.RefundAddress, "0x"), strings.TrimPrefix(t.Sender, "0x")) {
						it.Fail("C12", "refund-party-not-the-payer", "%s: transfer %d forwarded from %s was paid by %s and goes to %s, but its refund is recorded for %s", ch, e.Id, e.RefundChainId, t.Sender, e.ExternalRecipient, e.RefundAddress)
						return
					}
				}
			}
			// the sweep runs in every EndBlocker: an expired transfer that has something to give back is gone now
			if it.ExpiredByModel(ch, e) && e.RefundChainId != "" && it.refundValue(ch, e).Sign() > 0 && it.mintable(ch, e) {
				it.Fail("C12", "expired-not-refunded", "%s: transfer %d created at %d is still unbatched at %d although the timeout %s has passed", ch, e.Id, e.CreatedAt, it.Now, it.timeout())
				return
			}
		}
		if !quiet {
			continue
		}
		for _, e := range st.Pre.Chains[ch].Pool {
			if postPool[e.Id] != nil {
				continue
			}
			// left the pool in a quiet EndBlock: must be an expiry refund
			if !it.ExpiredByModel(ch, e) {
				it.Fail("C12", "refunded-before-timeout", "%s: transfer %d created at %d refunded at %d, before its timeout %s", ch, e.Id, e.CreatedAt, it.Now, it.timeout())
				return
			}
			c.ExpiryChecked++
			c.checkRefund(it, st, ch, e, delta, "expiry")
			if it.Failed() {
				return
			}
			if e.RefundChainId == "hub" && uniqueHash(e.TxHash) {
				if s := it.ReportedStatus(e.TxHash); s != mtypes.TX_STATUS_REFUNDED {
					it.Fail("C12", "refund-status", "%s: transfer %d expired but status is %s", ch, e.Id, s)
					return
				}
			}
		}
	}
	if quiet {
		c.compareBalances(it, st, delta, "expiry")
	}
}

func (c *Refunds) compareBalances(it *Interp, st *StepInfo, delta map[string]*big.Int, how string) {
	for name, addr := range it.Accts {
		if name == "module" {
			continue
		}
		for _, d := range it.Denoms {
			want := orZero(delta[addr.String()+"|"+d])
			got := new(big.Int).Sub(st.Post.Bal[name][d], st.Pre.Bal[name][d])
			if got.Cmp(want) != 0 {
				it.Fail("C12", "refund-amount", "%s: %s balance of %s changed by %s, the refunds due are %s", how, name, d, got, want)
				return
			}
		}
	}
}

// ================================================================ C13

type Invalidation struct {
	Rich, Withdrawn, ExecApplied int
}

func (c *Invalidation) Step(it *Interp, st *StepInfo) {
	for _, ch := range ExtChains {
		pre, post := st.Pre.Chains[ch], st.Post.Chains[ch]
		w := it.W[ch]
		postB := map[uint64]bool{}
		for _, b := range post.Batches {
			postB[b.BatchNonce] = true
		}
		executed := map[uint64]bool{}
		for _, ev := range it.AppliedEvents(ch, st.Pre, st.Post) {
			if be, ok := ev.(*mtypes.BatchExecutedEvent); ok {
				executed[be.BatchNonce] = true
			}
		}
		if len(executed) > 0 || st.Phase == "begin" {
			toks := map[string]bool{}
			for _, b := range pre.Batches {
				toks[b.ExternalTokenId] = true
			}
			if len(pre.Batches) >= 3 && len(toks) >= 2 {
				c.Rich++
			}
		}
		postPool := map[uint64]bool{}
		for _, e := range post.Pool {
			postPool[e.Id] = true
		}
		for _, b := range pre.Batches {
			gone := !postB[b.BatchNonce]
			if executed[b.BatchNonce] {
				c.ExecApplied++
				if !gone {
					it.Fail("C13", "executed-batch-kept", "%s: batch %d observed executed but still pending", ch, b.BatchNonce)
					return
				}
				continue
			}
			// must it go because a later same-token batch was executed?
			mustGo := false
			if ch != "minter" {
				for n := range executed {
					if o := st.Pre.Batch(ch, n); o != nil && o.ExternalTokenId == b.ExternalTokenId && o.BatchNonce > b.BatchNonce {
						mustGo = true
					}
				}
			}
			if mustGo && !gone {
				it.Fail("C13", "older-batch-kept", "%s: batch %d (token %s) still pending although a later batch of that token was executed", ch, b.BatchNonce, b.ExternalTokenId)
				return
			}
			if !gone {
				continue
			}
			c.Withdrawn++
			if ch == "minter" {
				it.Fail("C13", "minter-batch-withdrawn", "minter: batch %d withdrawn without execution", b.BatchNonce)
				return
			}
			// withdrawn: the external chain must be unable to execute it, now or later
			if w.CouldEverExecute(b) {
				it.Fail("C13", "withdrawn-while-executable", "%s: batch %d (token %s, timeout %d) withdrawn in %s although the contract (height %d, last executed nonce for token %d) would still execute it",
					ch, b.BatchNonce, b.ExternalTokenId, b.Timeout, st.Phase, w.Height, w.LastExec[b.ExternalTokenId])
				return
			}
			// and by the hub's own knowledge
			if !mustGo && !(b.Timeout < post.Observed.ExternalHeight) {
				it.Fail("C13", "withdrawn-without-reason", "%s: batch %d (timeout %d) withdrawn in %s; observed external height %d, no later batch executed", ch, b.BatchNonce, b.Timeout, st.Phase, post.Observed.ExternalHeight)
				return
			}
			// its transfers go back to the pool (or are refunded at once when expired)
			for _, tx := range b.Transactions {
				if !postPool[tx.Id] && !(st.Phase == "end" && it.expired(tx)) {
					inNew := false
					for _, nb := range post.Batches {
						for _, t2 := range nb.Transactions {
							if t2.Id == tx.Id {
								inNew = true
							}
						}
					}
					if !inNew {
						it.Fail("C13", "withdrawn-transfer-lost", "%s: transfer %d of withdrawn batch %d is neither unbatched nor re-batched", ch, tx.Id, b.BatchNonce)
						return
					}
				}
			}
		}
	}
}

var _ = sdk.NewInt

// ================================================================ C01

// Solvency: after every step, per denom (exact rationals, hub units)
//
//	supply + in-flight - executed-but-unobserved <= custody held by the external chains.
type Solvency struct {
	Deposits, FeeDeposits, NonTrivialSteps int
	preFunded                              map[string]*big.Int
}

func ratFromExt(dec uint64, x *big.Int) *big.Rat {
	return new(big.Rat).SetFrac(new(big.Int).Mul(x, pow10(18)), pow10(dec))
}

func (c *Solvency) Step(it *Interp, st *StepInfo) {
	if c.preFunded == nil {
		for _, w := range it.W {
			w.CheckFunds = true
		}
		c.preFunded = map[string]*big.Int{}
		if it.C.Funds != "" {
			for _, d := range it.Denoms {
				c.preFunded[d] = new(big.Int).Mul(bigOf(it.C.Funds), big.NewInt(3))
			}
		}
	}
	for _, d := range it.Denoms {
		lhs := new(big.Rat).SetInt(st.Post.Supply[d])
		rhs := new(big.Rat)
		if f := c.preFunded[d]; f != nil {
			rhs.SetInt(f)
		}
		for _, ch := range ExtChains {
			tok := it.H.TokenByDenom(ch, d)
			if tok == nil {
				continue
			}
			w := it.W[ch]
			cs := st.Post.Chains[ch]
			add := func(e *mtypes.SendToExternal, all bool, sign int64) {
				if e.Token.ExternalTokenId != tok.ExtId {
					return
				}
				v := new(big.Int).Set(e.Token.Amount.BigInt())
				if all {
					v.Add(v, e.Fee.Amount.BigInt())
					v.Add(v, e.ValCommission.Amount.BigInt())
				}
				r := ratFromExt(tok.Decimals, v)
				if sign < 0 {
					lhs.Sub(lhs, r)
				} else {
					lhs.Add(lhs, r)
				}
			}
			for _, e := range cs.Pool {
				add(e, true, 1)
			}
			for _, b := range cs.Batches {
				for _, tx := range b.Transactions {
					add(tx, true, 1)
					if w.Executed[b.BatchNonce] {
						add(tx, false, -1) // already paid out externally, the hub has not seen it yet
					}
				}
			}
			cust := new(big.Int)
			if w.Custody[tok.ExtId] != nil {
				cust.Set(w.Custody[tok.ExtId])
			}
			if w.Paid[tok.ExtId] != nil {
				cust.Sub(cust, w.Paid[tok.ExtId])
			}
			rhs.Add(rhs, ratFromExt(tok.Decimals, cust))
		}
		if lhs.Cmp(rhs) > 0 {
			it.Fail("C01", "vouchers-exceed-collateral", "denom %s after %s of %v: supply + in-flight = %s exceeds external custody %s (supply %s)", d, st.Phase, st.Op, lhs.FloatString(3), rhs.FloatString(3), st.Post.Supply[d])
			return
		}
	}
	// supply grows only by observed deposits or by re-minting what was burned for an in-flight transfer
	if st.Phase == "op" && st.Res != nil && st.Op != nil && (st.Op.K == "send" || st.Op.K == "send2" || st.Op.K == "reqbatch") {
		for _, d := range it.Denoms {
			if st.Post.Supply[d].Cmp(st.Pre.Supply[d]) > 0 {
				it.Fail("C01", "supply-grew-without-deposit", "supply of %s grew from %s to %s in %v", d, st.Pre.Supply[d], st.Post.Supply[d], st.Op)
				return
			}
		}
	}
}
