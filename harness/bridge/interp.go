package bridge

import (
	"encoding/hex"
	"fmt"
	"math/big"
	"os"
	"sort"
	"strings"
	"time"

	codectypes "github.com/cosmos/cosmos-sdk/codec/types"
	sdk "github.com/cosmos/cosmos-sdk/types"
	authtypes "github.com/cosmos/cosmos-sdk/x/auth/types"

	mtypes "github.com/MinterTeam/mhub2/module/x/mhub2/types"
	otypes "github.com/MinterTeam/mhub2/module/x/oracle/types"

	"verifharness/pbt"
	"verifharness/sim"
)

// sdkInt: an sdk.Int holds 256 bits; a larger generated value stands for the largest one a message or event can carry
func sdkInt(b *big.Int) sdk.Int {
	if b.BitLen() > 256 {
		return sdk.NewIntFromBigInt(new(big.Int).Sub(new(big.Int).Lsh(big.NewInt(1), 256), big.NewInt(1)))
	}
	return sdk.NewIntFromBigInt(new(big.Int).Set(b))
}

func bigOf(s string) *big.Int {
	if s == "" {
		return new(big.Int)
	}
	x, ok := new(big.Int).SetString(s, 10)
	if !ok {
		panic("bad int: " + s)
	}
	return x
}

// ---------------------------------------------------------------- snapshots

type ChainSnap struct {
	Pool       []*mtypes.SendToExternal // by id
	Batches    []*mtypes.BatchTx        // by nonce
	SignerSets []*mtypes.SignerSetTx    // by nonce
	LastNonce  uint64
	Observed   mtypes.LatestBlockHeight
}

type Snap struct {
	Chains map[string]*ChainSnap
	Bal    map[string]map[string]*big.Int // account label -> denom -> amount
	Supply map[string]*big.Int
	Hash   string
}

func (s *Snap) PoolById(chain string, id uint64) *mtypes.SendToExternal {
	for _, p := range s.Chains[chain].Pool {
		if p.Id == id {
			return p
		}
	}
	return nil
}

func (s *Snap) Batch(chain string, nonce uint64) *mtypes.BatchTx {
	for _, b := range s.Chains[chain].Batches {
		if b.BatchNonce == nonce {
			return b
		}
	}
	return nil
}

// Place returns "pool", "batch:<nonce>" or "" for a transfer id.
func (s *Snap) Places(chain string, id uint64) []string {
	var out []string
	for _, p := range s.Chains[chain].Pool {
		if p.Id == id {
			out = append(out, "pool")
		}
	}
	for _, b := range s.Chains[chain].Batches {
		for _, tx := range b.Transactions {
			if tx.Id == id {
				out = append(out, fmt.Sprintf("batch:%d", b.BatchNonce))
			}
		}
	}
	return out
}

// ---------------------------------------------------------------- interpreter

type StepInfo struct {
	Idx   int
	Op    *Op
	Phase string // "op", "end", "begin"
	Pre   *Snap
	Post  *Snap
	Res   *sim.TxResult // for message ops
	Msg   sdk.Msg
	// facts established by the interpreter for this step
	SendOK      bool
	NewID       uint64
	CancelID    uint64
	CancelChain string
	CancelAs    string // bech32 sender used
	Executed    []*mtypes.BatchTx
	Note        string
}

type Checker interface {
	Step(it *Interp, st *StepInfo)
}

type Interp struct {
	Done   bool // set by a terminal macro (xdelist): the rest of the history is not interpreted
	H      *sim.Hub
	C      *Case
	W      map[string]*WChain
	Denoms []string
	Height int64
	Now    int64
	Checks []Checker
	Want   string
	// Lenient: failures of checkers that belong to another property do not end the history (Foreign names the first)
	Lenient bool
	Foreign string
	Born    map[string]int64 // chain|id -> block time at which the transfer was first seen
	fprop   string
	f       *pbt.Failure
	Accts   map[string]sdk.AccAddress
	Stats   map[string]int
	StepNo  int
	// AppliedEvents counts external events applied by the hub per chain.
	TxHashes []string
	NoHash   bool
	cur      *Snap // snapshot of the current hub state (nothing changes it between steps)
}

func (it *Interp) preSnap() *Snap {
	if it.cur == nil {
		it.cur = it.Snap()
	}
	return it.cur
}

func (it *Interp) Fail(prop, key, format string, a ...interface{}) {
	if it.fprop != "" {
		return
	}
	if it.Lenient && prop != it.Want && prop != "C05" && prop != "harness" {
		// an auxiliary checker of another property: noted, the wanted property keeps judging the history
		if it.Foreign == "" {
			it.Foreign = prop + "/" + key
		}
		return
	}
	it.fprop = prop
	it.f = pbt.Failf(key, "step %d: %s", it.StepNo, fmt.Sprintf(format, a...))
}

func (it *Interp) Failed() bool { return it.fprop != "" }

// ReportedStatus is what a user is told about a transaction: the answer of the TransactionStatus query.
func (it *Interp) ReportedStatus(txHash string) mtypes.TxStatusType {
	r, err := it.H.K.TransactionStatus(sdk.WrapSDKContext(it.H.Ctx()), &mtypes.TransactionStatusRequest{TxHash: txHash})
	if err != nil || r == nil || r.Status == nil {
		return mtypes.TxStatusType(-1)
	}
	return r.Status.Status
}

// Result applies first-divergence attribution (see props/common_test.go).
func (it *Interp) Result() *pbt.Failure {
	if it.fprop == it.Want || it.Want == "*" {
		return it.f
	}
	return nil
}

func (it *Interp) FailedProp() string { return it.fprop }

// FailedKey is "<prop>/<key>" of the first divergence, whatever property it belongs to.
func (it *Interp) FailedKey() string {
	if it.f == nil {
		return ""
	}
	return it.fprop + "/" + it.f.Key
}

func NewInterp(c *Case, want string, checks ...Checker) *Interp {
	it := &Interp{C: c, Want: want, Checks: checks, W: map[string]*WChain{}, Stats: map[string]int{}, Accts: map[string]sdk.AccAddress{}}
	it.H = sim.NewHub(c.Cfg)
	it.H.Watchdog = 3 * time.Second
	it.Denoms = it.H.Denoms()
	for _, ch := range ExtChains {
		it.W[ch] = NewWChain(ch)
		it.W[ch].NextSeq = c.Cfg.StartSequence + 1 // the multisig's transaction count matches the hub's sequence counter
	}
	for u := 0; u < 3; u++ {
		it.Accts[fmt.Sprintf("user%d", u)] = sim.UserAddr(u)
	}
	it.Accts["temp"] = mtypes.TempAddress
	it.Accts["module"] = authtypes.NewModuleAddress(mtypes.ModuleName)
	if c.Funds != "" {
		f := bigOf(c.Funds)
		for u := 0; u < 3; u++ {
			for _, d := range it.Denoms {
				it.H.Fund(sim.UserAddr(u), d, f)
			}
		}
	}
	return it
}

func (it *Interp) Snap() *Snap {
	h := it.H
	s := &Snap{Chains: map[string]*ChainSnap{}, Bal: map[string]map[string]*big.Int{}, Supply: map[string]*big.Int{}}
	ctx := h.Ctx()
	for _, ch := range ExtChains {
		cs := &ChainSnap{}
		cs.Pool = h.Pool(ch)
		sort.Slice(cs.Pool, func(i, j int) bool { return cs.Pool[i].Id < cs.Pool[j].Id })
		cs.Batches = h.Batches(ch)
		cs.SignerSets = h.SignerSets(ch)
		cs.LastNonce = h.K.GetLastObservedEventNonce(ctx, mtypes.ChainID(ch))
		cs.Observed = h.K.GetLastObservedExternalBlockHeight(ctx, mtypes.ChainID(ch))
		s.Chains[ch] = cs
	}
	for name, a := range it.Accts {
		s.Bal[name] = map[string]*big.Int{}
		for _, d := range it.Denoms {
			s.Bal[name][d] = h.Bank.GetBalance(ctx, a, d).Amount.BigInt()
		}
	}
	for _, d := range it.Denoms {
		s.Supply[d] = h.Bank.GetSupply(ctx, d).Amount.BigInt()
	}
	if !it.NoHash {
		s.Hash = h.StateHash()
	}
	return s
}

func (it *Interp) denom(i int) string { return it.Denoms[i%len(it.Denoms)] }

var Trace = os.Getenv("VERIF_TRACE") != ""

func (it *Interp) trace(st *StepInfo) {
	if !Trace {
		return
	}
	res := ""
	if st.Res != nil {
		res = fmt.Sprintf(" err=%v", st.Res.Err)
	}
	fmt.Printf("[%d %s h=%d t=%d] %v%s %s\n", st.Idx, st.Phase, it.Height, it.Now, st.Op, res, st.Note)
	for _, ch := range ExtChains {
		c := st.Post.Chains[ch]
		var pool []string
		for _, e := range c.Pool {
			pool = append(pool, fmt.Sprintf("%d(%s f%s c%s @%d %s h=%.8s rc=%s to=%.10s)", e.Id, e.Token.Amount, e.Fee.Amount, e.ValCommission.Amount, e.CreatedAt, e.Token.ExternalTokenId, e.TxHash, e.RefundChainId, e.ExternalRecipient))
		}
		var bs []string
		for _, b := range c.Batches {
			var ids []uint64
			for _, tx := range b.Transactions {
				ids = append(ids, tx.Id)
			}
			bs = append(bs, fmt.Sprintf("#%d seq%d tok=%s to=%d %v", b.BatchNonce, b.Sequence, b.ExternalTokenId, b.Timeout, ids))
		}
		fmt.Printf("    %s: nonce=%d obs=%d/%d world(h=%d ev=%d rel=%d) pool=%v batches=%v\n", ch, c.LastNonce, c.Observed.ExternalHeight, c.Observed.CosmosHeight, it.W[ch].Height, len(it.W[ch].Events), it.W[ch].Relayed, pool, bs)
	}
}

func (it *Interp) notify(st *StepInfo) {
	it.trace(st)
	for _, c := range it.Checks {
		if it.Failed() {
			return
		}
		c.Step(it, st)
	}
}

// learn records batches and signer sets the hub published so that the
// external side (relayers) knows them even after the hub deletes them.
func (it *Interp) learn(s *Snap) {
	for _, ch := range ExtChains {
		w := it.W[ch]
		for _, b := range s.Chains[ch].Batches {
			if _, ok := w.Known[b.BatchNonce]; !ok {
				w.Known[b.BatchNonce] = b
			}
		}
		for _, ss := range s.Chains[ch].SignerSets {
			if _, ok := w.KnownSS[ss.Nonce]; !ok {
				w.KnownSS[ss.Nonce] = ss
			}
		}
		// when was a transfer first seen? (the model's own clock for the expiry rule, independent of the stored CreatedAt)
		if it.Born == nil {
			it.Born = map[string]int64{}
		}
		see := func(e *mtypes.SendToExternal) {
			k := fmt.Sprintf("%s|%d", ch, e.Id)
			if _, ok := it.Born[k]; !ok {
				it.Born[k] = it.Now
			}
		}
		for _, e := range s.Chains[ch].Pool {
			see(e)
		}
		for _, b := range s.Chains[ch].Batches {
			for _, e := range b.Transactions {
				see(e)
			}
		}
	}
}

// ExpiredByModel: has the outgoing-transfer timeout passed since the transfer was first seen?
func (it *Interp) ExpiredByModel(ch string, e *mtypes.SendToExternal) bool {
	born, ok := it.Born[fmt.Sprintf("%s|%d", ch, e.Id)]
	if !ok {
		born = int64(e.CreatedAt)
	}
	return time.Unix(born, 0).Add(it.timeout()).Before(time.Unix(it.Now, 0))
}

func HubHex(a sdk.AccAddress) string { return "0x" + hex.EncodeToString(a) }

// Run interprets the whole case.
func (it *Interp) Run() *pbt.Failure {
	h := it.H
	it.Height, it.Now = 1, 1600000005
	pre := it.preSnap()
	if err := h.Begin(it.Height, it.Now); err != nil {
		it.Fail("C05", blockerKey(err), "%v", err)
		return it.Result()
	}
	post := it.Snap()
	it.cur = post
	it.learn(post)
	it.notify(&StepInfo{Idx: -1, Phase: "begin", Pre: pre, Post: post})
	for i := range it.C.Ops {
		if it.Failed() || it.Done {
			break
		}
		it.StepNo = i
		it.step(i, &it.C.Ops[i])
	}
	if !it.Failed() && !it.Done {
		it.StepNo = len(it.C.Ops)
		it.endBlock(len(it.C.Ops), &Op{K: "block", T: 5}, false)
	}
	return it.Result()
}

// BlockerKey names the root cause of a failing blocker (site and normalised panic message).
func BlockerKey(err error) string { return blockerKey(err) }

func blockerKey(err error) string {
	if be, ok := err.(*sim.BlockerError); ok {
		site := siteOf(be.Stack)
		if be.Deadlock {
			return "deadlock@" + site
		}
		if be.Hang {
			// (the innermost frame of a spinning goroutine differs from sample to sample: name the blocker's step only)
			return "does-not-terminate@" + strings.SplitN(site, ">", 2)[0]
		}
		if be.Overrun {
			return "harness-overrun"
		}
		return "panic@" + site + ":" + normMsg(fmt.Sprint(be.Panic))
	}
	return "blocker"
}

// normMsg strips what varies between inputs from a panic message.
func normMsg(m string) string {
	var b strings.Builder
	lastN := false
	for _, r := range m {
		if r >= '0' && r <= '9' {
			if !lastN {
				b.WriteByte('N')
			}
			lastN = true
			continue
		}
		lastN = false
		b.WriteRune(r)
	}
	out := b.String()
	if i := strings.Index(out, " ["); i > 0 {
		out = out[:i]
	}
	if len(out) > 70 {
		out = out[:70]
	}
	return out
}

// siteOf names the module function the blocker called directly and the
// innermost module function on the stack, e.g. "refundExpiredTxs>cancelSendToExternal".
func siteOf(stack string) string {
	var fns []string
	for _, l := range strings.Split(stack, "\n") {
		if !strings.HasPrefix(l, "github.com/MinterTeam/mhub2/module/x/") {
			continue
		}
		l = strings.TrimPrefix(l, "github.com/MinterTeam/mhub2/module/x/")
		if i := strings.Index(l, "("); i > 0 && !strings.HasPrefix(l[i:], "(*") {
			l = l[:i]
		}
		if i := strings.LastIndex(l, "."); i >= 0 {
			l = l[i+1:]
		}
		l = strings.TrimSuffix(l, "(...)")
		if i := strings.Index(l, "("); i > 0 {
			l = l[:i]
		}
		fns = append(fns, l)
	}
	// innermost first; drop closures and the blocker itself
	var clean []string
	for _, f := range fns {
		if strings.HasPrefix(f, "func") || f == "EndBlocker" || f == "BeginBlocker" || f == "" {
			continue
		}
		clean = append(clean, f)
	}
	if len(clean) == 0 {
		return "unknown"
	}
	outer, inner := clean[len(clean)-1], clean[0]
	if outer == inner {
		return outer
	}
	return outer + ">" + inner
}

func (it *Interp) endBlock(i int, op *Op, begin bool) {
	h := it.H
	pre := it.preSnap()
	if err := h.End(); err != nil {
		it.Fail("C05", blockerKey(err), "%v", err)
		return
	}
	post := it.Snap()
	it.cur = post
	it.learn(post)
	it.notify(&StepInfo{Idx: i, Op: op, Phase: "end", Pre: pre, Post: post})
	if it.Failed() || !begin {
		return
	}
	it.Height++
	it.Now += op.T
	if err := h.Begin(it.Height, it.Now); err != nil {
		it.Fail("C05", blockerKey(err), "%v", err)
		return
	}
	post2 := it.Snap()
	it.cur = post2
	it.learn(post2)
	it.notify(&StepInfo{Idx: i, Op: op, Phase: "begin", Pre: post, Post: post2})
}

func (it *Interp) deliver(i int, op *Op, msg sdk.Msg, fill func(st *StepInfo, res *sim.TxResult)) {
	pre := it.preSnap()
	res := it.H.Deliver(msg)
	if res.Panicked {
		it.Stats["handler-panic"]++
	}
	post := it.Snap()
	it.cur = post
	it.learn(post)
	st := &StepInfo{Idx: i, Op: op, Phase: "op", Pre: pre, Post: post, Res: &res, Msg: msg}
	if fill != nil {
		fill(st, &res)
	}
	it.notify(st)
}

// claimUpTo lets validator vi claim, in order, the events it has not claimed yet, up to index limit.
func (it *Interp) claimUpTo(chain string, vi, limit int) {
	w := it.W[chain]
	for w.Cursor[vi] < limit && w.Cursor[vi] < len(w.Events) {
		any, err := mtypes.PackEvent(w.Events[w.Cursor[vi]])
		if err != nil {
			panic(err)
		}
		res := it.H.Deliver(&mtypes.MsgSubmitExternalEvent{Event: any, Signer: sdk.AccAddress(sim.ValAddr(vi)).String(), ChainId: chain})
		if res.Err != nil {
			it.Stats["claim-rejected"]++
		}
		w.Cursor[vi]++
	}
}

// relayAll lets the validators claim pending events of a chain (the lazy one only when catching up).
func (it *Interp) relayAll(i int, op *Op, chain string, max int) {
	w := it.W[chain]
	pre := it.preSnap()
	target := w.Relayed + max
	if target > len(w.Events) {
		target = len(w.Events)
	}
	did := false
	for vi, v := range it.H.Staking.Vals {
		if !v.Bonded {
			continue
		}
		if it.C.Lazy == vi+1 && !(op.K == "relay" && op.R == 1) {
			continue
		}
		if w.Cursor[vi] < target {
			did = true
		}
		it.claimUpTo(chain, vi, target)
	}
	w.Relayed = target
	if did {
		post := it.Snap()
		it.cur = post
		it.notify(&StepInfo{Idx: i, Op: op, Phase: "op", Pre: pre, Post: post, Note: "relay"})
	}
}

func (it *Interp) step(i int, op *Op) {
	defer func() {
		switch op.K {
		case "deposit", "transfer", "hb", "exec":
			if op.T == 0 && !it.Failed() {
				it.relayAll(i, op, ExtChains[op.C%len(ExtChains)], 1000)
			}
		}
	}()
	h := it.H
	chain := ExtChains[op.C%len(ExtChains)]
	w := it.W[chain]
	it.Stats["op:"+op.K]++
	switch op.K {
	case "block":
		it.endBlock(i, op, true)

	case "send":
		d := it.denom(op.D)
		msg := mtypes.NewMsgSendToExternal(mtypes.ChainID(chain), sim.UserAddr(op.U%3), sim.ExtUser(op.R%4).Hex(),
			sdk.NewCoin(d, sdkInt(bigOf(op.A))), sdk.NewCoin(d, sdkInt(bigOf(op.F))))
		it.deliver(i, op, msg, func(st *StepInfo, res *sim.TxResult) {
			if res.Err == nil {
				st.SendOK = true
				st.NewID = res.Resp.(*mtypes.MsgSendToExternalResponse).Id
				it.TxHashes = append(it.TxHashes, res.TxHash)
				it.Stats["send-ok"]++
			}
		})

	case "send2":
		d := it.denom(op.D)
		a, f := bigOf(op.A), bigOf(op.F)
		m1 := mtypes.NewMsgSendToExternal(mtypes.ChainID(chain), sim.UserAddr(op.U%3), sim.ExtUser(op.R%4).Hex(), sdk.NewCoin(d, sdkInt(a)), sdk.NewCoin(d, sdkInt(f)))
		m2 := mtypes.NewMsgSendToExternal(mtypes.ChainID(chain), sim.UserAddr(op.U%3), sim.ExtUser((op.R+1)%4).Hex(), sdk.NewCoin(d, sdkInt(new(big.Int).Add(a, big.NewInt(1)))), sdk.NewCoin(d, sdkInt(f)))
		pre := it.preSnap()
		rs := it.H.DeliverTx([]sdk.Msg{m1, m2})
		post := it.Snap()
		it.cur = post
		it.learn(post)
		if rs[0].Err == nil {
			it.Stats["send2-ok"]++
			it.TxHashes = append(it.TxHashes, rs[0].TxHash)
		}
		it.notify(&StepInfo{Idx: i, Op: op, Phase: "op", Pre: pre, Post: post, Res: &rs[len(rs)-1], Note: "two sends in one tx"})

	case "burst":
		d := it.denom(op.D)
		for k := 0; k < op.N && !it.Failed(); k++ {
			fee := op.F
			if fee == "seq" {
				fee = fmt.Sprint(k % 7)
			} else if fee == "seqbig" { // fees of everyday magnitude (1e18 .. 7e18): bytes in the middle of the 32-byte fee field are in use
				fee = new(big.Int).Add(new(big.Int).Mul(big.NewInt(int64(1+k%7)), big.NewInt(1000000000000000000)), big.NewInt(int64(k))).String()
			}
			msg := mtypes.NewMsgSendToExternal(mtypes.ChainID(chain), sim.UserAddr(op.U%3), sim.ExtUser(k%4).Hex(),
				sdk.NewCoin(d, sdkInt(bigOf(op.A))), sdk.NewCoin(d, sdkInt(bigOf(fee))))
			sub := *op
			sub.K = "send"
			sub.F = fee
			it.deliver(i, &sub, msg, func(st *StepInfo, res *sim.TxResult) {
				if res.Err == nil {
					st.SendOK = true
					st.NewID = res.Resp.(*mtypes.MsgSendToExternalResponse).Id
					it.TxHashes = append(it.TxHashes, res.TxHash)
					it.Stats["send-ok"]++
				}
			})
		}

	case "cancel":
		pre := it.preSnap()
		var ids []uint64
		senderOf := map[uint64]string{}
		var maxID uint64
		for _, p := range pre.Chains[chain].Pool {
			ids = append(ids, p.Id)
			senderOf[p.Id] = p.Sender
			if p.Id > maxID {
				maxID = p.Id
			}
		}
		for _, b := range pre.Chains[chain].Batches {
			for _, tx := range b.Transactions {
				ids = append(ids, tx.Id)
				senderOf[tx.Id] = tx.Sender
				if tx.Id > maxID {
					maxID = tx.Id
				}
			}
		}
		sort.Slice(ids, func(a, b int) bool { return ids[a] < ids[b] })
		ids = append(ids, maxID+3)
		if maxID > 1 {
			ids = append(ids, 1)
		}
		id := ids[op.R%len(ids)]
		as := sim.UserAddr(op.U % 3).String()
		if op.N == 0 && senderOf[id] != "" {
			for u := 0; u < 3; u++ {
				if sim.UserAddr(u).String() == senderOf[id] {
					as = senderOf[id] // nobody holds a key for the module's transit account
				}
			}
		}
		msg := &mtypes.MsgCancelSendToExternal{Id: id, Sender: as, ChainId: chain}
		it.deliver(i, op, msg, func(st *StepInfo, res *sim.TxResult) {
			st.CancelID, st.CancelChain, st.CancelAs = id, chain, as
			if res.Err == nil {
				it.Stats["cancel-ok"]++
			}
		})

	case "reqbatch":
		msg := &mtypes.MsgRequestBatchTx{Denom: it.denom(op.D), Signer: sim.UserAddr(op.U % 3).String(), ChainId: chain}
		it.deliver(i, op, msg, func(st *StepInfo, res *sim.TxResult) {
			if res.Err == nil {
				it.Stats["reqbatch-ok"]++
			}
		})

	case "deposit":
		tok := h.TokenByDenom(chain, it.denom(op.D))
		if tok == nil {
			return
		}
		amt := bigOf(op.A)
		w.lock(tok.ExtId, amt)
		coin := tok.ExtId
		if strings.HasPrefix(coin, "0x") {
			switch op.N {
			case 1:
				coin = strings.ToLower(coin)
			case 2:
				coin = "0x" + strings.ToUpper(coin[2:])
			}
		}
		w.Events = append(w.Events, &mtypes.SendToHubEvent{
			EventNonce: w.nextNonce(), ExternalCoinId: coin, Amount: sdkInt(amt),
			Sender: sim.ExtUser(1).Hex(), CosmosReceiver: sim.UserAddr(op.U % 3).String(),
			ExternalHeight: w.Height, TxHash: w.txHash(),
		})
		it.Stats["deposit"]++

	case "transfer":
		tok := h.TokenByDenom(chain, it.denom(op.D))
		if tok == nil {
			return
		}
		amt := bigOf(op.A)
		dest := DestChains[op.C2%len(DestChains)]
		rcv := sim.ExtUser((op.R + 1) % 4).Hex()
		if dest == "hub" {
			rcv = HubHex(sim.UserAddr(op.R % 3))
		}
		w.lock(tok.ExtId, amt)
		w.Events = append(w.Events, &mtypes.TransferToChainEvent{
			EventNonce: w.nextNonce(), ExternalCoinId: tok.ExtId, Amount: sdkInt(amt), Fee: sdkInt(bigOf(op.F)),
			Sender: sim.ExtUser(op.R % 4).Hex(), ReceiverChainId: dest, ExternalReceiver: rcv,
			ExternalHeight: w.Height, TxHash: w.txHash(),
		})
		it.Stats["transfer"]++

	case "exec":
		if chain == "minter" {
			// the multisig executes outgoing txs strictly in sequence order
			for _, ss := range w.KnownSS {
				if ss.Sequence == w.NextSeq {
					w.NextSeq++
					w.SSNonce = ss.Nonce
					w.Events = append(w.Events, &mtypes.SignerSetTxExecutedEvent{
						EventNonce: w.nextNonce(), SignerSetTxNonce: ss.Nonce, ExternalHeight: w.Height,
						Members: ss.Signers, TxHash: w.txHash(),
					})
					it.Stats["exec-valset"]++
					return
				}
			}
		}
		if chain != "minter" && op.N == 1 {
			// the contract adopts the newest published signer set (nonce must increase)
			var best *mtypes.SignerSetTx
			for _, ss := range w.KnownSS {
				if ss.Nonce > w.SSNonce && (best == nil || ss.Nonce > best.Nonce) {
					best = ss
				}
			}
			if best != nil {
				w.SSNonce = best.Nonce
				w.Events = append(w.Events, &mtypes.SignerSetTxExecutedEvent{
					EventNonce: w.nextNonce(), SignerSetTxNonce: best.Nonce, ExternalHeight: w.Height,
					Members: best.Signers, TxHash: w.txHash(),
				})
				it.Stats["exec-valset"]++
			}
			return
		}
		cands := w.ExecutableBatches()
		if len(cands) == 0 {
			return
		}
		b := cands[op.R%len(cands)]
		w.Execute(b, bigOf(op.A), sim.ExtUser(3).Hex())
		it.Stats["exec-batch"]++

	case "tick":
		w.Height += uint64(op.N)

	case "byz":
		if w.Relayed >= len(w.Events) {
			return
		}
		// Byzantine = the bonded validator with the least power, provided it holds less than a third
		bz, tot := -1, int64(0)
		for vi, v := range it.H.Staking.Vals {
			if !v.Bonded {
				continue
			}
			tot += v.Power
			if bz < 0 || v.Power < it.H.Staking.Vals[bz].Power {
				bz = vi
			}
		}
		if bz < 0 || it.H.Staking.Vals[bz].Power*3 >= tot {
			return
		}
		any0, _ := mtypes.PackEvent(w.Events[w.Relayed])
		var ev mtypes.ExternalEvent
		if err := it.H.Cdc.UnpackAny(&codectypes.Any{TypeUrl: any0.TypeUrl, Value: append([]byte{}, any0.Value...)}, &ev); err != nil {
			return
		}
		if op.N == 6 {
			// the same event, reported at an external height far in the future (a minority's word must not move the hub's clock)
			far := w.Height + 1000000
			switch e := ev.(type) {
			case *mtypes.SendToHubEvent:
				e.ExternalHeight = far
			case *mtypes.TransferToChainEvent:
				e.ExternalHeight = far
			case *mtypes.BatchExecutedEvent:
				e.ExternalHeight = far
			case *mtypes.ContractCallExecutedEvent:
				e.ExternalHeight = far
			case *mtypes.SignerSetTxExecutedEvent:
				e.ExternalHeight = far
			}
		}
		switch e := ev.(type) {
		case *mtypes.ContractCallExecutedEvent, *mtypes.SignerSetTxExecutedEvent:
			if op.N != 6 {
				return
			}
			_ = e
		case *mtypes.SendToHubEvent:
			switch op.N {
			case 0:
				e.Amount = inflate(e.Amount, 10)
			case 1:
				e.CosmosReceiver = sim.UserAddr(2).String()
			case 2, 3:
				e.Sender = sim.ExtUser(3).Hex()
			case 6:
			default:
				e.TxHash = "0xbad"
			}
		case *mtypes.TransferToChainEvent:
			switch op.N {
			case 0:
				e.Amount = inflate(e.Amount, 10)
			case 1:
				e.ExternalReceiver = sim.ExtUser(3).Hex()
				if e.ReceiverChainId == "hub" {
					e.ExternalReceiver = HubHex(sim.UserAddr(2))
				}
			case 2:
				e.Fee = sdk.ZeroInt()
			case 3:
				e.Sender = sim.ExtUser(3).Hex()
			case 4:
				e.Fee = e.Amount
			case 6:
			default:
				e.TxHash = "0xbad"
			}
		case *mtypes.BatchExecutedEvent:
			switch op.N {
			case 0:
				e.BatchNonce++
			case 1:
				e.FeePayer = sim.ExtUser(2).Hex()
			case 2:
				e.FeePayer = "not-an-address" // (the fee payer is not validated and not part of the claim id)
			case 3, 4:
				e.FeePaid = inflate(e.FeePaid, 1000)
			case 6:
			default:
				e.TxHash = "0xbad"
			}
		default:
			return
		}
		if ev.Validate(mtypes.ChainID(chain)) != nil {
			return
		}
		any, _ := mtypes.PackEvent(ev)
		pre := it.preSnap()
		res := it.H.Deliver(&mtypes.MsgSubmitExternalEvent{Event: any, Signer: sdk.AccAddress(sim.ValAddr(bz)).String(), ChainId: chain})
		if res.Err == nil {
			it.Stats["byz-claim"]++
			if w.Cursor[bz] <= w.Relayed {
				w.Cursor[bz] = w.Relayed + 1 // it has spent its claim for this nonce
			}
		}
		post := it.Snap()
		it.cur = post
		it.notify(&StepInfo{Idx: i, Op: op, Phase: "op", Pre: pre, Post: post, Note: "byzantine claim"})

	case "sign":
		// every bonded validator confirms every outgoing tx it has not confirmed yet (all chains)
		pre := it.preSnap()
		gid := []byte(it.H.Cfg.GravityId)
		for _, c2 := range ExtChains {
			for vi, v := range it.H.Staking.Vals {
				if !v.Bonded {
					continue
				}
				signer := sim.EthAddr(vi, c2, 0).Hex()
				key := sim.EthKey(vi, c2, 0)
				var confs []mtypes.ExternalTxConfirmation
				for _, ss := range pre.Chains[c2].SignerSets {
					sg, _ := mtypes.NewEthereumSignature(ss.GetCheckpoint(gid), key)
					confs = append(confs, &mtypes.SignerSetTxConfirmation{SignerSetNonce: ss.Nonce, ExternalSigner: signer, Signature: sg})
				}
				for _, b := range pre.Chains[c2].Batches {
					sg, _ := mtypes.NewEthereumSignature(b.GetCheckpoint(gid), key)
					confs = append(confs, &mtypes.BatchTxConfirmation{ExternalTokenId: b.ExternalTokenId, BatchNonce: b.BatchNonce, ExternalSigner: signer, Signature: sg})
				}
				for _, cf := range confs {
					any, err := mtypes.PackConfirmation(cf)
					if err != nil {
						continue
					}
					if r := it.H.Deliver(&mtypes.MsgSubmitExternalTxConfirmation{Confirmation: any, Signer: sdk.AccAddress(sim.ValAddr(vi)).String(), ChainId: c2}); r.Err == nil {
						it.Stats["confirm-ok"]++
					}
				}
			}
		}
		post := it.Snap()
		it.cur = post
		it.notify(&StepInfo{Idx: i, Op: op, Phase: "op", Pre: pre, Post: post, Note: "confirmations"})

	case "oprice":
		pre := it.preSnap()
		epoch := it.H.O.GetCurrentEpoch(it.H.Ctx())
		names := []string{"eth", "ethereum/gas", "bnb", "bsc/gas"}
		names = append(names, it.Denoms...)
		if op.N == 3 {
			names = append(names, "extra/one", "extra/two")
		}
		for vi, v := range it.H.Staking.Vals {
			if !v.Bonded && op.N != 2 {
				continue
			}
			ps := &otypes.Prices{}
			for ni, n := range names {
				val := sdk.NewDec(int64(100 + 10*ni)).Add(sdk.NewDecWithPrec(int64(vi*op.R), 2))
				ps.List = append(ps.List, &otypes.Price{Name: n, Value: val})
			}
			if op.N == 1 && vi == 0 {
				ps.List = ps.List[1:] // a required price is missing: the claim must be refused
			}
			res := it.H.Deliver(&otypes.MsgPriceClaim{Epoch: epoch, Prices: ps, Orchestrator: sdk.AccAddress(sim.ValAddr(vi)).String()})
			if res.Err == nil {
				it.Stats["oprice-ok"]++
			}
		}
		post := it.Snap()
		it.cur = post
		it.notify(&StepInfo{Idx: i, Op: op, Phase: "op", Pre: pre, Post: post, Note: "oracle price claims"})

	case "oholders":
		pre := it.preSnap()
		epoch := it.H.O.GetCurrentEpoch(it.H.Ctx())
		for vi, v := range it.H.Staking.Vals {
			if !v.Bonded {
				continue
			}
			hs := &otypes.Holders{}
			variant := 0
			if op.N%2 == 1 && vi%2 == 1 {
				variant = 1
			}
			for u := 0; u < 3; u++ {
				val := sdk.NewIntFromBigInt(new(big.Int).Mul(big.NewInt(int64((u+1)*(op.R+1+variant))), pow10(18)))
				addr := sim.ExtUser(u).Hex()[2:]
				if u == 2 && op.R%2 == 1 {
					addr = "0x" + addr // an entry spelled with the prefix (admissible; look-ups strip the prefix, so it never matches)
				}
				hs.List = append(hs.List, &otypes.Holder{Address: addr, Value: val})
			}
			if op.N >= 2 && vi%2 == 1 {
				// the same holders listed in another order
				for a, b := 0, len(hs.List)-1; a < b; a, b = a+1, b-1 {
					hs.List[a], hs.List[b] = hs.List[b], hs.List[a]
				}
			}
			res := it.H.Deliver(&otypes.MsgHoldersClaim{Epoch: epoch, Holders: hs, Orchestrator: sdk.AccAddress(sim.ValAddr(vi)).String()})
			if res.Err == nil {
				it.Stats["oholders-ok"]++
			}
		}
		post := it.Snap()
		it.cur = post
		it.notify(&StepInfo{Idx: i, Op: op, Phase: "op", Pre: pre, Post: post, Note: "oracle holders claims"})

	case "hostile":
		if ev := it.hostileEvent(chain, op); ev != nil {
			if err := ev.Validate(mtypes.ChainID(chain)); err == nil {
				w.Events = append(w.Events, ev)
				it.Stats["hostile-event"]++
				it.Stats[fmt.Sprintf("hostile:%d", op.N%NumHostile)]++
				it.relayAll(i, op, chain, 1000)
			}
		}

	case "xexec":
		it.step(i, &Op{K: "exec", C: op.C, R: op.R, A: op.A})
		if !it.Failed() {
			it.step(i, &Op{K: "block", T: op.T})
		}

	case "xround":
		// macro: several accounts of chain C send to another external chain (fees differ), the transfers are
		// applied, batched there, executed at a low reported cost and the execution is observed
		dst := (op.C%len(ExtChains) + 1 + op.C2%2) % len(ExtChains)
		fee := bigOf(op.F)
		for j := 0; j < op.N && !it.Failed(); j++ {
			f := new(big.Int).Mul(fee, big.NewInt(int64(1+j%3)))
			it.step(i, &Op{K: "transfer", C: op.C, D: op.D, A: op.A, F: f.String(), C2: dst, R: op.R + j})
		}
		paid := []string{"1", op.F, new(big.Int).Mul(fee, big.NewInt(1000)).String()}[op.U%3]
		for _, o := range []Op{{K: "block", T: op.T}, {K: "reqbatch", C: dst, D: op.D}, {K: "block", T: op.T}, {K: "exec", C: dst, A: paid}, {K: "block", T: op.T}} {
			if it.Failed() {
				break
			}
			o := o
			it.step(i, &o)
		}

	case "xbyzexec":
		// macro: the external chain executes a batch; the Byzantine validator is the first to report it, with one
		// of the fields the claim id does not cover changed (fee payer, fee paid), the honest validators follow;
		// then the external clock passes every timeout and that is observed, and time passes on the hub
		for _, o := range []Op{{K: "exec", C: op.C, R: op.R, A: op.A, T: 1}, {K: "byz", C: op.C, N: 1 + op.N%4}, {K: "relay", C: op.C, N: 100, R: 1},
			{K: "block", T: 5}, {K: "tick", C: op.C, N: 100000}, {K: "hb", C: op.C}, {K: "block", T: 5}, {K: "block", T: op.T}, {K: "block", T: 5}} {
			if it.Failed() {
				break
			}
			o := o
			it.step(i, &o)
		}

	case "xexpire":
		// macro: several hundred transfers of one chain pass their timeout in the same block (one EndBlocker refunds them all)
		for _, o := range []Op{{K: "burst", U: op.U, C: op.C, D: op.D, N: op.N, A: "1000", F: "seq"}, {K: "block", T: 100000}, {K: "block", T: 5}, {K: "block", T: 5}} {
			if it.Failed() {
				break
			}
			o := o
			it.step(i, &o)
		}

	case "xfull":
		// macro: two full batches (100 transfers each) of one token wait; the external chain executes the later one, which
		// makes the hub pay out one full batch and hand the whole older one back to the pool while handling a single event
		for _, o := range []Op{{K: "burst", U: op.U, C: op.C, D: op.D, N: 100, A: "1000", F: "seq"}, {K: "reqbatch", C: op.C, D: op.D}, {K: "block", T: 5},
			{K: "burst", U: op.U, C: op.C, D: op.D, N: 100 + op.R, A: "1000", F: "seq"}, {K: "reqbatch", C: op.C, D: op.D}, {K: "block", T: 5},
			{K: "exec", C: op.C, R: 1, A: "1", T: 0}, {K: "block", T: 5}, {K: "block", T: 5}, {K: "exec", C: op.C, R: 0, A: "1", T: 0}, {K: "block", T: 5}, {K: "block", T: 5}} {
			if it.Failed() {
				break
			}
			o := o
			it.step(i, &o)
		}

	case "xtopfee":
		// macro: ordinary transfers of a token and one that offers a fee anywhere in the 256-bit width of the pool key
		// (2^64 .. 2^250: every byte of the fee field decides an ordering somewhere), then a batch is requested; for odd R
		// the pool holds more transfers than a batch takes, so the selection itself (not only its order) shows the ranking
		exps := []uint{248, 249, 128, 130, 136, 160, 192, 224, 64, 100, 129, 250}
		top := new(big.Int).Lsh(big.NewInt(1), exps[op.R%len(exps)])
		top.Add(top, big.NewInt(int64(op.R)))
		n := 3
		if op.R%2 == 1 {
			n = 101
		}
		mode := "seqbig"
		if op.R < 2 {
			mode = "seq"
		}
		for _, o := range []Op{{K: "burst", U: op.U, C: op.C, D: op.D, N: n, A: "100", F: mode}, {K: "send", U: op.U, C: op.C, D: op.D, A: "100", F: top.String(), R: op.R},
			{K: "block", T: 5}, {K: "reqbatch", C: op.C, D: op.D}, {K: "block", T: 5}, {K: "block", T: 5}} {
			if it.Failed() {
				break
			}
			o := o
			it.step(i, &o)
		}

	case "xdelist":
		// terminal macro (C05 only; the models of the other checkers do not follow a changing token list): transfers of a
		// token wait in the pool, governance installs a token list without that token on that chain (what the proposal
		// handler does: SetTokenInfos), and six more blocks run, judged for panics / hangs only; nothing after it is interpreted
		it.step(i, &Op{K: "burst", U: op.U, C: op.C, D: op.D, N: 2 + op.R, A: "100", F: "seq"})
		if it.Failed() {
			break
		}
		if op.N%2 == 1 { // variant: one of them sits in a batch, which an external time-out hands back later
			it.step(i, &Op{K: "reqbatch", C: op.C, D: op.D})
			it.step(i, &Op{K: "burst", U: op.U, C: op.C, D: op.D, N: 2, A: "100", F: "seq"})
			if it.Failed() {
				break
			}
		}
		it.Stats["delist-pool"] += len(it.H.Pool(chain))
		d := it.denom(op.D)
		var kept []*mtypes.TokenInfo
		for _, ti := range it.H.K.GetTokenInfos(it.H.Ctx()).TokenInfos {
			if !(ti.ChainId == chain && ti.Denom == d) {
				kept = append(kept, ti)
			}
		}
		it.H.K.SetTokenInfos(it.H.Ctx(), &mtypes.TokenInfos{TokenInfos: kept})
		it.Stats["op:delist"]++
		it.Done = true
		for b := 0; b < 6; b++ {
			if err := it.H.End(); err != nil {
				it.Fail("C05", blockerKey(err), "%v", err)
				break
			}
			it.Height++
			it.Now += 5
			if err := it.H.Begin(it.Height, it.Now); err != nil {
				it.Fail("C05", blockerKey(err), "%v", err)
				break
			}
		}

	case "xbyzdep":
		// macro: a batch waits for its execution; a deposit arrives on that chain and the Byzantine validator is the first to
		// report it - truthfully, except for an external height far in the future; the honest validators follow; then the
		// external chain executes the waiting batch (its real clock has not moved), and time passes on the hub
		big3 := new(big.Int).Mul(bigOf(op.A), big.NewInt(3)).String() // the sender owns enough first (hub users may own nothing yet)
		for _, o := range []Op{{K: "deposit", U: op.U, C: op.C, D: op.D, A: big3, T: 0}, {K: "block", T: 5}, {K: "block", T: 5},
			{K: "send", U: op.U, C: op.C, D: op.D, A: op.A, F: op.F, R: op.R}, {K: "reqbatch", C: op.C, D: op.D}, {K: "block", T: 5},
			{K: "deposit", U: op.U, C: op.C, D: op.D, A: op.A, T: 1}, {K: "byz", C: op.C, N: 6}, {K: "relay", C: op.C, N: 100, R: 1}, {K: "block", T: 5}, {K: "block", T: 5},
			{K: "exec", C: op.C, R: op.R, A: "1", T: 0}, {K: "block", T: 5}, {K: "block", T: op.T}, {K: "block", T: 5}} {
			if it.Failed() {
				break
			}
			o := o
			it.step(i, &o)
		}

	case "xwhale":
		// macro: values at the top of the 256-bit range meet the sums the blockers compute.
		// variant 0: two bursts of sends whose fees, in the token's external units, add up to more than 2^256 while a
		// batch of the token is outstanding; variant 1: a deposit of ~2^255, almost all of it sent out again and left
		// to expire, while a second deposit of ~2^255 arrives (the refund would lift the supply over 2^256)
		top := new(big.Int).Lsh(big.NewInt(1), 255)
		var seq []Op
		if op.N%2 == 0 {
			fee := new(big.Int).Lsh(big.NewInt(1), uint(225+op.R%12)).String()
			seq = []Op{{K: "burst", U: op.U, C: op.C, D: op.D, N: 30, A: "100", F: fee}, {K: "block", T: 5}, {K: "block", T: 5},
				{K: "burst", U: op.U + 1, C: op.C, D: op.D, N: 66, A: "100", F: fee}, {K: "block", T: 5}, {K: "block", T: 5}}
		} else {
			seq = []Op{{K: "deposit", U: op.U, C: op.C, D: op.D, A: top.String()}, {K: "block", T: 1}}
			if (it.Height+1)%2 == 1 { // the send must land in an even block: the odd block after it builds no batch
				seq = append(seq, Op{K: "block", T: 1})
			}
			seq = append(seq, Op{K: "send", U: op.U, C: op.C, D: op.D, A: new(big.Int).Sub(top, big.NewInt(1000+int64(op.R))).String(), F: "0", R: op.R},
				Op{K: "block", T: op.T}, Op{K: "deposit", U: op.U + 1, C: op.C, D: op.D, A: top.String()}, Op{K: "block", T: 1}, Op{K: "block", T: 5})
		}
		for _, o := range seq {
			if it.Failed() {
				break
			}
			o := o
			it.step(i, &o)
		}

	case "xlag":
		// macro: a long stretch of hub blocks without any external observation (the projected external height runs
		// ahead), a batch, then a fresh observation showing the external chain was slower, another batch of the same
		// token (lower timeout than the older one), and the external clock moving to somewhere around both timeouts
		seq := []Op{{K: "send", U: op.U, C: op.C, D: op.D, A: op.A, F: op.F, R: op.R}}
		for k := 0; k < op.N; k++ {
			seq = append(seq, Op{K: "block", T: 5})
		}
		seq = append(seq, Op{K: "reqbatch", C: op.C, D: op.D}, Op{K: "block", T: 5}, Op{K: "hb", C: op.C}, Op{K: "block", T: 5},
			Op{K: "send", U: op.U, C: op.C, D: op.D, A: op.A, F: op.F, R: op.R + 1}, Op{K: "reqbatch", C: op.C, D: op.D}, Op{K: "block", T: 5},
			Op{K: "tick", C: op.C, N: op.C2}, Op{K: "hb", C: op.C}, Op{K: "block", T: 5}, Op{K: "block", T: 5})
		for _, o := range seq {
			if it.Failed() {
				break
			}
			o := o
			it.step(i, &o)
		}

	case "xtick":
		w.Height += uint64(op.N)
		it.step(i, &Op{K: "hb", C: op.C})
		for k := 0; k < 2 && !it.Failed(); k++ {
			it.step(i, &Op{K: "block", T: op.T})
		}

	case "ss0":
		// the external side reports the signer set it was deployed with: nonce 0 (what the Hub2 constructor emits)
		if sets := it.H.SignerSets(chain); len(sets) > 0 && w.SSNonce == 0 {
			w.Events = append(w.Events, &mtypes.SignerSetTxExecutedEvent{
				EventNonce: w.nextNonce(), SignerSetTxNonce: 0, ExternalHeight: w.Height, Members: sets[0].Signers, TxHash: w.txHash(),
			})
			it.Stats["exec-valset0"]++
			it.relayAll(i, op, chain, 1000)
		}

	case "hb":
		w.Events = append(w.Events, &mtypes.ContractCallExecutedEvent{
			EventNonce: w.nextNonce(), InvalidationScope: []byte("hb"), InvalidationNonce: uint64(len(w.Events) + 1),
			ExternalHeight: w.Height, TxHash: w.txHash(),
		})

	case "relay":
		it.relayAll(i, op, chain, op.N)
	}
}

// NumHostile is the number of hostile event variants.
const NumHostile = 16

var max256 = new(big.Int).Sub(new(big.Int).Lsh(big.NewInt(1), 256), big.NewInt(1))

// hostileEvent builds an event that passes stateless validation but carries
// contents no honest contract interaction would normally produce.
func (it *Interp) hostileEvent(chain string, op *Op) mtypes.ExternalEvent {
	w := it.W[chain]
	tok := it.H.TokenByDenom(chain, it.denom(op.D))
	ext := "0x00000000000000000000000000000000DeaDBeef"
	if chain == "minter" {
		ext = "424242"
	}
	if tok != nil {
		ext = tok.ExtId
	}
	amt := sdkInt(bigOf(op.A))
	base := func() *mtypes.TransferToChainEvent {
		return &mtypes.TransferToChainEvent{EventNonce: w.nextNonce(), ExternalCoinId: ext, Amount: amt, Fee: sdk.NewInt(1),
			Sender: sim.ExtUser(1).Hex(), ReceiverChainId: DestChains[op.R%4], ExternalReceiver: sim.ExtUser(2).Hex(),
			ExternalHeight: w.Height, TxHash: w.txHash()}
	}
	switch op.N % NumHostile {
	case 0: // negative fee
		e := base()
		e.Fee = sdk.NewInt(-5)
		return e
	case 1: // fee left unset
		e := base()
		e.Fee = sdk.Int{}
		return e
	case 2: // fee far above the amount
		e := base()
		e.Fee = sdkInt(max256)
		return e
	case 3: // amount 2^256-1
		e := base()
		e.Amount = sdkInt(max256)
		return e
	case 4: // receiver without 0x prefix, to the hub
		e := base()
		e.ReceiverChainId = "hub"
		e.ExternalReceiver = sim.ExtUser(2).Hex()[2:]
		return e
	case 5: // unknown destination chain
		e := base()
		e.ReceiverChainId = "solana"
		return e
	case 6: // deposit of 2^256-1
		return &mtypes.SendToHubEvent{EventNonce: w.nextNonce(), ExternalCoinId: ext, Amount: sdkInt(max256), Sender: sim.ExtUser(1).Hex(),
			CosmosReceiver: sim.UserAddr(0).String(), ExternalHeight: w.Height, TxHash: w.txHash()}
	case 7: // deposit to the module account (blocked address)
		return &mtypes.SendToHubEvent{EventNonce: w.nextNonce(), ExternalCoinId: ext, Amount: amt, Sender: sim.ExtUser(1).Hex(),
			CosmosReceiver: it.Accts["module"].String(), ExternalHeight: w.Height, TxHash: w.txHash()}
	case 8: // deposit of an unregistered token
		id := "0x00000000000000000000000000000000DeaDBeef"
		if chain == "minter" {
			id = "424242"
		}
		return &mtypes.SendToHubEvent{EventNonce: w.nextNonce(), ExternalCoinId: id, Amount: amt, Sender: sim.ExtUser(1).Hex(),
			CosmosReceiver: sim.UserAddr(0).String(), ExternalHeight: w.Height, TxHash: w.txHash()}
	case 9, 10, 11, 12: // execution report of a live batch with odd gas figures / payer
		var live []*mtypes.BatchTx
		for _, b := range it.preSnap().Chains[chain].Batches {
			live = append(live, b)
		}
		if len(live) == 0 {
			return nil
		}
		b := live[op.R%len(live)]
		e := &mtypes.BatchExecutedEvent{ExternalCoinId: b.ExternalTokenId, EventNonce: w.nextNonce(), ExternalHeight: w.Height, BatchNonce: b.BatchNonce,
			TxHash: w.txHash(), FeePaid: sdk.NewInt(1000), FeePayer: sim.ExtUser(3).Hex()}
		switch op.N % NumHostile {
		case 9:
			e.FeePaid = sdk.NewInt(-1000)
		case 10:
			e.FeePaid = sdkInt(max256)
		case 11:
			e.FeePaid = sdk.Int{}
		case 12:
			e.FeePayer = "not-an-address"
		}
		w.Executed[b.BatchNonce] = true
		if chain == "minter" {
			w.NextSeq = b.Sequence + 1
		} else if b.BatchNonce > w.LastExec[b.ExternalTokenId] {
			w.LastExec[b.ExternalTokenId] = b.BatchNonce
		}
		return e
	case 13: // execution report for a batch the hub does not know
		return &mtypes.BatchExecutedEvent{ExternalCoinId: ext, EventNonce: w.nextNonce(), ExternalHeight: w.Height, BatchNonce: 1 << 40,
			TxHash: w.txHash(), FeePaid: sdk.NewInt(1), FeePayer: sim.ExtUser(3).Hex()}
	case 14: // signer set report with no members / absurd nonce
		return &mtypes.SignerSetTxExecutedEvent{EventNonce: w.nextNonce(), SignerSetTxNonce: 1 << 62, ExternalHeight: 1<<63 + 5,
			Members: []*mtypes.ExternalSigner{}, TxHash: w.txHash()}
	default: // height far in the future
		return &mtypes.ContractCallExecutedEvent{EventNonce: w.nextNonce(), InvalidationScope: []byte{}, InvalidationNonce: 0,
			ExternalHeight: 1<<64 - 1, TxHash: w.txHash()}
	}
}

// inflate is what a lying validator reports instead of x: k*x+1, or - where that would not fit into an Int (whale
// values) - x/k+1: another value in any case.
func inflate(x sdk.Int, k int64) sdk.Int {
	if x.BigInt().BitLen() > 240 {
		return x.QuoRaw(k).AddRaw(1)
	}
	return x.MulRaw(k).AddRaw(1)
}
