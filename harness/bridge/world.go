package bridge

import (
	"crypto/sha256"
	"fmt"
	"math/big"
	"sort"

	mtypes "github.com/MinterTeam/mhub2/module/x/mhub2/types"
)

// WChain is the abstract external chain: an event log with consecutive event
// nonces, a block clock, custody per token, and the execution rules of the
// Hub2 contract (batch nonce per token strictly increasing, block < timeout)
// or of the Minter multisig (outgoing txs strictly in sequence order).
type WChain struct {
	Name    string
	Height  uint64
	Events  []mtypes.ExternalEvent // event nonce = index+1
	Relayed int                    // events already claimed by the diligent validators
	Cursor  map[int]int            // per validator: number of events it has claimed

	LastExec map[string]uint64              // EVM: token -> last executed batch nonce
	Known    map[uint64]*mtypes.BatchTx     // every batch the hub ever published, by batch nonce
	KnownSS  map[uint64]*mtypes.SignerSetTx // every signer set the hub ever published, by nonce
	Executed map[uint64]bool                // batch nonce executed
	ExecAt   map[uint64]int                 // batch nonce -> index of its execution event
	NextSeq  uint64                         // minter: next outgoing sequence to execute
	Custody  map[string]*big.Int            // token -> locked amount, external units
	Paid     map[string]*big.Int            // token -> total paid out by executed batches
	SSNonce  uint64                         // last signer set nonce the external side adopted
	// CheckFunds makes execution depend on the chain's own custody (solvency
	// histories); otherwise the chain is assumed to be funded from elsewhere.
	CheckFunds bool
}

func NewWChain(name string) *WChain {
	return &WChain{Name: name, Height: 1000, LastExec: map[string]uint64{}, Known: map[uint64]*mtypes.BatchTx{},
		KnownSS: map[uint64]*mtypes.SignerSetTx{}, Executed: map[uint64]bool{}, ExecAt: map[uint64]int{},
		NextSeq: 1, Custody: map[string]*big.Int{}, Paid: map[string]*big.Int{}, Cursor: map[int]int{}}
}

func (w *WChain) nextNonce() uint64 { return uint64(len(w.Events)) + 1 }

func (w *WChain) txHash() string {
	h := sha256.Sum256([]byte(fmt.Sprintf("%s-%d", w.Name, len(w.Events)+1)))
	return fmt.Sprintf("0x%x", h)
}

func (w *WChain) lock(token string, amt *big.Int) {
	if w.Custody[token] == nil {
		w.Custody[token] = new(big.Int)
	}
	w.Custody[token].Add(w.Custody[token], amt)
}

func batchOut(b *mtypes.BatchTx) *big.Int {
	out := new(big.Int)
	// Hub2.submitBatch transfers _amounts[i] to _destinations[i] only (fees stay in the
	// contract and are re-minted on the hub); the Minter multisend carries Token.Amount only.
	for _, tx := range b.Transactions {
		out.Add(out, tx.Token.Amount.BigInt())
	}
	return out
}

// Funded tells whether the chain's custody covers the batch's payouts (an
// ERC-20 transfer / Minter multisend from an account that lacks the balance fails).
func (w *WChain) Funded(b *mtypes.BatchTx) bool {
	have := new(big.Int)
	if w.Custody[b.ExternalTokenId] != nil {
		have.Set(w.Custody[b.ExternalTokenId])
	}
	if w.Paid[b.ExternalTokenId] != nil {
		have.Sub(have, w.Paid[b.ExternalTokenId])
	}
	return have.Cmp(batchOut(b)) >= 0
}

// CanExecute tells whether the external side would accept the batch now.
func (w *WChain) CanExecute(b *mtypes.BatchTx) bool {
	if w.Executed[b.BatchNonce] {
		return false
	}
	if w.CheckFunds && !w.Funded(b) {
		return false
	}
	if w.Name == "minter" {
		return b.Sequence == w.NextSeq
	}
	return b.BatchNonce > w.LastExec[b.ExternalTokenId] && w.Height < b.Timeout
}

// CouldEverExecute tells whether the batch can be executed now or at any later
// external block (used to judge batch withdrawal).
func (w *WChain) CouldEverExecute(b *mtypes.BatchTx) bool {
	if w.Executed[b.BatchNonce] {
		return false
	}
	if w.Name == "minter" {
		return b.Sequence >= w.NextSeq
	}
	return b.BatchNonce > w.LastExec[b.ExternalTokenId] && w.Height < b.Timeout
}

// Execute applies a batch on the external side and logs the event.
func (w *WChain) Execute(b *mtypes.BatchTx, feePaid *big.Int, payer string) {
	w.Executed[b.BatchNonce] = true
	if w.Name == "minter" {
		w.NextSeq = b.Sequence + 1
	} else {
		w.LastExec[b.ExternalTokenId] = b.BatchNonce
	}
	out := batchOut(b)
	if w.Paid[b.ExternalTokenId] == nil {
		w.Paid[b.ExternalTokenId] = new(big.Int)
	}
	w.Paid[b.ExternalTokenId].Add(w.Paid[b.ExternalTokenId], out)
	w.ExecAt[b.BatchNonce] = len(w.Events)
	w.Events = append(w.Events, &mtypes.BatchExecutedEvent{
		ExternalCoinId: b.ExternalTokenId,
		EventNonce:     w.nextNonce(),
		BatchNonce:     b.BatchNonce,
		ExternalHeight: w.Height,
		TxHash:         w.txHash(),
		FeePaid:        sdkInt(feePaid),
		FeePayer:       payer,
	})
}

// ExecutableBatches lists known batches the external side would accept now, oldest first.
func (w *WChain) ExecutableBatches() []*mtypes.BatchTx {
	var out []*mtypes.BatchTx
	for _, b := range w.Known {
		if w.CanExecute(b) {
			out = append(out, b)
		}
	}
	sort.Slice(out, func(i, j int) bool { return out[i].BatchNonce < out[j].BatchNonce })
	return out
}
