package sim

import (
	"runtime"
	"strings"
	"time"
)

// deadlockSignature samples all goroutine stacks twice and reports a deadlock
// only for the structural state that provably cannot progress in tm-db's
// MemDB: a goroutine waiting for the MemDB write lock (Set/Delete) while that
// very goroutine's caller chain is inside an open cachekv iterator, whose
// MemDB iterator goroutine holds the read lock until the iterator is closed.
func deadlockSignature() (string, bool) {
	grab := func() string {
		buf := make([]byte, 1<<22)
		n := runtime.Stack(buf, true)
		return string(buf[:n])
	}
	find := func(s string) string {
		for _, g := range strings.Split(s, "\n\n") {
			if (strings.Contains(g, "tm-db.(*MemDB).Set") || strings.Contains(g, "tm-db.(*MemDB).Delete")) &&
				strings.Contains(g, "sync.(*RWMutex).Lock") {
				return g
			}
		}
		return ""
	}
	a := find(grab())
	if a == "" {
		return "", false
	}
	time.Sleep(150 * time.Millisecond)
	s2 := grab()
	b := find(s2)
	if b == "" {
		return "", false
	}
	hdr := func(g string) string { return strings.SplitN(g, "\n", 2)[0] }
	ga, gb := strings.Fields(hdr(a)), strings.Fields(hdr(b))
	if len(ga) < 2 || len(gb) < 2 || ga[1] != gb[1] {
		return "", false
	}
	// an iterator goroutine of MemDB must be parked (it holds the RLock)
	if !strings.Contains(s2, "tm-db.newMemDBIteratorMtxChoice") && !strings.Contains(s2, "tm-db.newMemDBIterator") {
		return "", false
	}
	return b, true
}
