package sim

import (
	"sort"
	"time"

	sdk "github.com/cosmos/cosmos-sdk/types"
	stakingtypes "github.com/cosmos/cosmos-sdk/x/staking/types"
)

// SimStaking is a deterministic double of the staking keeper interfaces used by
// x/mhub2 and x/oracle. Powers and bonding status are plain data owned by the
// harness; they change only when the harness says so (the "staking step" of a
// block, right before the mhub2 EndBlocker, as in app.go's order).
type SimStaking struct {
	Vals []*SimVal
}

type SimVal struct {
	Oper   sdk.ValAddress
	Power  int64
	Bonded bool
	// Unbonding distinguishes the two non-bonded states of x/staking: a validator
	// that left the active set is Unbonding for the unbonding period, then Unbonded.
	Unbonding bool
	// Removed: the validator finished unbonding without delegations and was deleted from the staking store
	// (Validator() answers nil, it has no power and takes part in no iteration).
	Removed bool
}

func (s *SimStaking) find(a sdk.ValAddress) *SimVal {
	for _, v := range s.Vals {
		if v.Oper.Equals(a) {
			if v.Removed {
				return nil
			}
			return v
		}
	}
	return nil
}

func (s *SimStaking) mk(v *SimVal) stakingtypes.Validator {
	st := stakingtypes.Unbonded
	if v.Bonded {
		st = stakingtypes.Bonded
	} else if v.Unbonding {
		st = stakingtypes.Unbonding
	}
	tok := sdk.NewInt(v.Power).Mul(sdk.DefaultPowerReduction)
	return stakingtypes.Validator{
		OperatorAddress: v.Oper.String(),
		Status:          st,
		Tokens:          tok,
		DelegatorShares: tok.ToDec(),
	}
}

func (s *SimStaking) bondedSorted() []*SimVal {
	var out []*SimVal
	for _, v := range s.Vals {
		if v.Bonded && !v.Removed {
			out = append(out, v)
		}
	}
	sort.SliceStable(out, func(i, j int) bool {
		if out[i].Power != out[j].Power {
			return out[i].Power > out[j].Power
		}
		return string(out[i].Oper) < string(out[j].Oper)
	})
	return out
}

func (s *SimStaking) GetBondedValidatorsByPower(ctx sdk.Context) []stakingtypes.Validator {
	var out []stakingtypes.Validator
	for _, v := range s.bondedSorted() {
		out = append(out, s.mk(v))
	}
	return out
}

func (s *SimStaking) GetLastValidatorPower(ctx sdk.Context, operator sdk.ValAddress) int64 {
	v := s.find(operator)
	if v == nil || !v.Bonded {
		return 0
	}
	return v.Power
}

func (s *SimStaking) GetLastTotalPower(ctx sdk.Context) sdk.Int {
	t := sdk.ZeroInt()
	for _, v := range s.Vals {
		if v.Bonded && !v.Removed {
			t = t.Add(sdk.NewInt(v.Power))
		}
	}
	return t
}

func (s *SimStaking) TotalPower() int64 {
	var t int64
	for _, v := range s.Vals {
		if v.Bonded && !v.Removed {
			t += v.Power
		}
	}
	return t
}

func (s *SimStaking) IterateValidators(ctx sdk.Context, cb func(index int64, validator stakingtypes.ValidatorI) (stop bool)) {
	for i, v := range s.Vals {
		if v.Removed {
			continue
		}
		if cb(int64(i), s.mk(v)) {
			return
		}
	}
}

func (s *SimStaking) IterateBondedValidatorsByPower(ctx sdk.Context, cb func(index int64, validator stakingtypes.ValidatorI) (stop bool)) {
	for i, v := range s.bondedSorted() {
		if cb(int64(i), s.mk(v)) {
			return
		}
	}
}

func (s *SimStaking) IterateLastValidators(ctx sdk.Context, cb func(index int64, validator stakingtypes.ValidatorI) (stop bool)) {
	s.IterateBondedValidatorsByPower(ctx, cb)
}

func (s *SimStaking) Validator(ctx sdk.Context, addr sdk.ValAddress) stakingtypes.ValidatorI {
	v := s.find(addr)
	if v == nil {
		return nil
	}
	return s.mk(v)
}

func (s *SimStaking) ValidatorByConsAddr(ctx sdk.Context, addr sdk.ConsAddress) stakingtypes.ValidatorI {
	return nil
}

func (s *SimStaking) GetParams(ctx sdk.Context) stakingtypes.Params {
	return stakingtypes.DefaultParams()
}

func (s *SimStaking) GetValidator(ctx sdk.Context, addr sdk.ValAddress) (stakingtypes.Validator, bool) {
	v := s.find(addr)
	if v == nil {
		return stakingtypes.Validator{}, false
	}
	return s.mk(v), true
}

func (s *SimStaking) ValidatorQueueIterator(ctx sdk.Context, endTime time.Time, endHeight int64) sdk.Iterator {
	return nil
}

func (s *SimStaking) Slash(sdk.Context, sdk.ConsAddress, int64, int64, sdk.Dec) {}
func (s *SimStaking) Jail(sdk.Context, sdk.ConsAddress)                         {}
