package sim

import (
	"math/big"
	"testing"

	mtypes "github.com/MinterTeam/mhub2/module/x/mhub2/types"
	sdk "github.com/cosmos/cosmos-sdk/types"
)

func TestSmoke(t *testing.T) {
	cfg := Config{
		Tokens: []TokenCfg{
			{Id: 1, Denom: "hub", Chain: "ethereum", ExtId: "0xA091Bb826756eA25114c512B916754b3fBCb4f63", Decimals: 18, Commission: "0.01"},
			{Id: 2, Denom: "hub", Chain: "minter", ExtId: "1", Decimals: 18, Commission: "0.01"},
		},
		Vals:   []ValCfg{{Power: 10, Bonded: true, Keys: []string{"ethereum", "minter", "bsc"}}, {Power: 10, Bonded: true, Keys: []string{"ethereum", "minter"}}},
		Prices: []PriceCfg{{"hub", "1"}, {"eth", "1000"}, {"bnb", "100"}},
	}
	h := NewHub(cfg)
	h.Fund(UserAddr(0), "hub", big.NewInt(1000000))
	if err := h.Begin(1, 1600000005); err != nil {
		t.Fatal(err)
	}
	r := h.Deliver(mtypes.NewMsgSendToExternal("ethereum", UserAddr(0), ExtUser(1).Hex(), sdk.NewInt64Coin("hub", 1000), sdk.NewInt64Coin("hub", 10)))
	if r.Err != nil {
		t.Fatal(r.Err)
	}
	if err := h.End(); err != nil {
		t.Fatal(err)
	}
	if err := h.Begin(2, 1600000010); err != nil {
		t.Fatal(err)
	}
	if err := h.End(); err != nil {
		t.Fatal(err)
	}
	t.Log(len(h.Pool("ethereum")), len(h.Batches("ethereum")), len(h.SignerSets("ethereum")), h.StateHash(), h.Balance(UserAddr(0), "hub"))
}
