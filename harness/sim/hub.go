// Package sim runs the mhub2 and oracle modules the way a node does: its own
// multistore, real bank/auth/params keepers, keepers wired as in app/app.go,
// one cache-wrapped store per block, every transaction in its own cache
// context with panic recovery, blockers in app order.
package sim

import (
	"crypto/ecdsa"
	"crypto/sha256"
	"encoding/hex"
	"errors"
	"fmt"
	"math/big"
	"runtime"
	"runtime/debug"
	"sort"
	"strings"
	"time"

	"github.com/cosmos/cosmos-sdk/codec"
	codectypes "github.com/cosmos/cosmos-sdk/codec/types"
	"github.com/cosmos/cosmos-sdk/std"
	"github.com/cosmos/cosmos-sdk/store"
	sdk "github.com/cosmos/cosmos-sdk/types"
	authkeeper "github.com/cosmos/cosmos-sdk/x/auth/keeper"
	authtypes "github.com/cosmos/cosmos-sdk/x/auth/types"
	bankkeeper "github.com/cosmos/cosmos-sdk/x/bank/keeper"
	banktypes "github.com/cosmos/cosmos-sdk/x/bank/types"
	paramskeeper "github.com/cosmos/cosmos-sdk/x/params/keeper"
	paramstypes "github.com/cosmos/cosmos-sdk/x/params/types"
	stakingtypes "github.com/cosmos/cosmos-sdk/x/staking/types"
	ethcommon "github.com/ethereum/go-ethereum/common"
	ethcrypto "github.com/ethereum/go-ethereum/crypto"
	"github.com/tendermint/tendermint/libs/log"
	tmproto "github.com/tendermint/tendermint/proto/tendermint/types"
	dbm "github.com/tendermint/tm-db"

	"github.com/MinterTeam/mhub2/module/x/mhub2"
	mkeeper "github.com/MinterTeam/mhub2/module/x/mhub2/keeper"
	mtypes "github.com/MinterTeam/mhub2/module/x/mhub2/types"
	"github.com/MinterTeam/mhub2/module/x/oracle"
	okeeper "github.com/MinterTeam/mhub2/module/x/oracle/keeper"
	otypes "github.com/MinterTeam/mhub2/module/x/oracle/types"
)

type TokenCfg struct {
	Id         uint64 `json:"id"`
	Denom      string `json:"denom"`
	Chain      string `json:"chain"`
	ExtId      string `json:"ext_id"`
	Decimals   uint64 `json:"decimals"`
	Commission string `json:"commission"` // sdk.Dec string
}

type ValCfg struct {
	Power  int64    `json:"power"`
	Bonded bool     `json:"bonded"`
	Keys   []string `json:"keys"` // chains for which delegate keys are registered at genesis
}

type PriceCfg struct {
	Name  string `json:"name"`
	Value string `json:"value"`
}

type HolderCfg struct {
	Addr  string `json:"addr"`
	Value string `json:"value"`
}

type Config struct {
	Tokens              []TokenCfg  `json:"tokens"`
	Vals                []ValCfg    `json:"vals"`
	Users               int         `json:"users"`
	OutgoingTxTimeoutMs uint64      `json:"outgoing_tx_timeout_ms"`
	TargetEthTxTimeout  uint64      `json:"target_eth_tx_timeout"`
	AvgBlockTime        uint64      `json:"avg_block_time"`
	AvgEthBlockTime     uint64      `json:"avg_eth_block_time"`
	AvgBscBlockTime     uint64      `json:"avg_bsc_block_time"`
	SignerSetWindow     uint64      `json:"signer_set_window"`
	GravityId           string      `json:"gravity_id"`
	Prices              []PriceCfg  `json:"prices"`
	Holders             []HolderCfg `json:"holders"`
	NoPrices            bool        `json:"no_prices"`
	// ParamSalt > 0 moves every remaining parameter away from its default (windows, slash fractions, bridge address,
	// chain id, contract hash), so that a field lost or defaulted somewhere shows
	ParamSalt uint64 `json:"param_salt,omitempty"`
	// StartBatchNonce / StartSequence: counters every external chain starts from (a chain that has been running for a while)
	StartBatchNonce uint64 `json:"start_batch_nonce,omitempty"`
	StartSequence   uint64 `json:"start_sequence,omitempty"`
}

// Chains in the order of DefaultParams.
var Chains = []string{"ethereum", "minter", "bsc", "hub"}

func (c *Config) fill() {
	if c.OutgoingTxTimeoutMs == 0 {
		c.OutgoingTxTimeoutMs = 86400000 - 1
	}
	if c.TargetEthTxTimeout == 0 {
		c.TargetEthTxTimeout = 86400000
	}
	if c.AvgBlockTime == 0 {
		c.AvgBlockTime = 5000
	}
	if c.AvgEthBlockTime == 0 {
		c.AvgEthBlockTime = 15000
	}
	if c.AvgBscBlockTime == 0 {
		c.AvgBscBlockTime = 5000
	}
	if c.SignerSetWindow == 0 {
		c.SignerSetWindow = 10000
	}
	if c.GravityId == "" {
		c.GravityId = "defaultgravityid"
	}
	if c.Users == 0 {
		c.Users = 3
	}
}

// ---------------------------------------------------------------- identities

func h20(s string) []byte {
	h := sha256.Sum256([]byte(s))
	return h[:20]
}

func ValAddr(i int) sdk.ValAddress  { return sdk.ValAddress(h20(fmt.Sprintf("verif-val-%d", i))) }
func OrchAddr(i int) sdk.AccAddress { return sdk.AccAddress(h20(fmt.Sprintf("verif-orch-%d", i))) }
func UserAddr(i int) sdk.AccAddress { return sdk.AccAddress(h20(fmt.Sprintf("verif-user-%d", i))) }

// EthKey is the external (secp256k1) key of validator i on a chain; alt>0
// gives spare keys for re-registration experiments.
func EthKey(i int, chain string, alt int) *ecdsa.PrivateKey {
	for n := 0; ; n++ {
		h := sha256.Sum256([]byte(fmt.Sprintf("verif-eth-%d-%s-%d-%d", i, chain, alt, n)))
		k, err := ethcrypto.ToECDSA(h[:])
		if err == nil {
			return k
		}
	}
}

func EthAddr(i int, chain string, alt int) ethcommon.Address {
	return ethcrypto.PubkeyToAddress(EthKey(i, chain, alt).PublicKey)
}

// ExtUser is an external-chain account (depositor / recipient).
func ExtUser(i int) ethcommon.Address {
	return ethcommon.BytesToAddress(h20(fmt.Sprintf("verif-extuser-%d", i)))
}

// ---------------------------------------------------------------- hub

type Hub struct {
	Cfg     Config
	Cdc     codec.Codec
	ms      sdk.CommitMultiStore
	keys    map[string]*sdk.KVStoreKey
	tkey    *sdk.TransientStoreKey
	K       mkeeper.Keeper
	O       okeeper.Keeper
	Bank    bankkeeper.BaseKeeper
	Acc     authkeeper.AccountKeeper
	Staking *SimStaking
	Msg     mtypes.MsgServer
	OMsg    otypes.MsgServer

	Height int64
	Time   int64

	inBlock     bool
	speculating bool
	cms         sdk.CacheMultiStore
	ctx         sdk.Context
	txCount     uint64
	pending     []func(*SimStaking)
	Events      []sdk.Event // ABCI events of the current block (blockers + successful txs)
	Watchdog    time.Duration
	// NoBlockCache runs blocks directly on the root store (no cache wrapping);
	// only for experiments, a node always cache-wraps.
	NoBlockCache bool
	// Spec: what this process instance does besides executing the blocks - nothing a correct state machine could notice.
	//   bit 0: speculative execution, as a node does for gas simulation and x/gov does when a proposal is submitted: every
	//          transaction is first run on a cache context that is thrown away, and at each block start a token-list change
	//          proposal is run by the module's proposal handler on a cache context that is thrown away
	//   bit 1: the node is restarted every third block: all keepers and message servers are built anew over the same stores
	Spec int
}

// DefaultSpec is the Spec value given to hubs built from now on.
var DefaultSpec int

var StoreNames = []string{mtypes.StoreKey, otypes.StoreKey, authtypes.StoreKey, banktypes.StoreKey, paramstypes.StoreKey}

func MakeCodec() codec.Codec {
	reg := codectypes.NewInterfaceRegistry()
	std.RegisterInterfaces(reg)
	authtypes.RegisterInterfaces(reg)
	banktypes.RegisterInterfaces(reg)
	stakingtypes.RegisterInterfaces(reg)
	mtypes.RegisterInterfaces(reg)
	otypes.RegisterInterfaces(reg)
	return codec.NewProtoCodec(reg)
}

// BlockedError is returned when a blocker panics or deadlocks.
type BlockerError struct {
	Where    string
	Panic    interface{}
	Stack    string
	Deadlock bool
	Overrun  bool
	Hang     bool // Overrun, and a goroutine is still inside the blocker
}

func (e *BlockerError) Error() string {
	if e.Deadlock {
		return fmt.Sprintf("%s: deadlock (goroutine waits for the MemDB write lock under its own open iterator): %s", e.Where, briefStack(e.Stack))
	}
	if e.Hang {
		return fmt.Sprintf("%s: still running after 21 watchdog periods (more than a minute; normal blocks take milliseconds): it does not terminate [%s]", e.Where, briefStack(e.Stack))
	}
	if e.Overrun {
		return fmt.Sprintf("%s: did not finish within the watchdog budget (inconclusive)", e.Where)
	}
	return fmt.Sprintf("%s: panic: %v [%s]", e.Where, e.Panic, briefStack(e.Stack))
}

// briefStack keeps the function names of the module frames only.
func briefStack(st string) string {
	var out []string
	for _, l := range strings.Split(st, "\n") {
		if strings.HasPrefix(l, "github.com/MinterTeam/mhub2/module/") {
			l = strings.TrimPrefix(l, "github.com/MinterTeam/mhub2/module/")
			if i := strings.Index(l, "("); i > 0 {
				j := strings.Index(l[i:], ")")
				if strings.HasPrefix(l[i:], "(*") && j > 0 {
					if k := strings.Index(l[i+j:], "("); k > 0 {
						l = l[:i+j+k]
					}
				} else {
					l = l[:i]
				}
			}
			out = append(out, l)
		}
	}
	if len(out) > 8 {
		out = out[:8]
	}
	return strings.Join(out, " < ")
}

// NewHub builds the environment and initialises it from the configuration's genesis.
func NewHub(cfg Config) *Hub {
	h := NewBareHub(cfg)
	h.InitFromConfig()
	return h
}

// NewBareHub wires stores and keepers but runs no genesis (for import experiments).
func NewBareHub(cfg Config) *Hub {
	cfg.fill()
	h := &Hub{Cfg: cfg, keys: map[string]*sdk.KVStoreKey{}}
	h.Cdc = MakeCodec()

	db := dbm.NewMemDB()
	ms := store.NewCommitMultiStore(db)
	for _, n := range StoreNames {
		h.keys[n] = sdk.NewKVStoreKey(n)
		ms.MountStoreWithDB(h.keys[n], sdk.StoreTypeIAVL, db)
	}
	h.tkey = sdk.NewTransientStoreKey(paramstypes.TStoreKey)
	ms.MountStoreWithDB(h.tkey, sdk.StoreTypeTransient, db)
	if err := ms.LoadLatestVersion(); err != nil {
		panic(err)
	}
	h.ms = ms

	h.Spec = DefaultSpec
	h.Staking = &SimStaking{}
	for i, v := range cfg.Vals {
		h.Staking.Vals = append(h.Staking.Vals, &SimVal{Oper: ValAddr(i), Power: v.Power, Bonded: v.Bonded})
	}
	h.wire()

	h.Height = 0
	h.Time = 1600000000
	return h
}

// wire builds the keepers and message servers over the hub's stores (at start, and again for a simulated restart).
func (h *Hub) wire() {
	amino := codec.NewLegacyAmino()
	pk := paramskeeper.NewKeeper(h.Cdc, amino, h.keys[paramstypes.StoreKey], h.tkey)
	maccPerms := map[string][]string{
		mtypes.ModuleName: {authtypes.Minter, authtypes.Burner},
	}
	h.Acc = authkeeper.NewAccountKeeper(h.Cdc, h.keys[authtypes.StoreKey], pk.Subspace(authtypes.ModuleName), authtypes.ProtoBaseAccount, maccPerms)
	blocked := map[string]bool{authtypes.NewModuleAddress(mtypes.ModuleName).String(): true}
	h.Bank = bankkeeper.NewBaseKeeper(h.Cdc, h.keys[banktypes.StoreKey], h.Acc, pk.Subspace(banktypes.ModuleName), blocked)

	ok := okeeper.NewKeeper(h.Cdc, h.keys[otypes.StoreKey], pk.Subspace(otypes.ModuleName), h.Staking)
	mk := mkeeper.NewKeeper(h.Cdc, h.keys[mtypes.StoreKey], pk.Subspace(mtypes.ModuleName), h.Acc, h.Bank, nil, ok, sdk.DefaultPowerReduction)
	h.K = mk.SetStakingKeeper(h.Staking)
	h.O = ok.SetMhub2Keeper(h.K)
	h.Msg = mkeeper.NewMsgServerImpl(h.K)
	h.OMsg = okeeper.NewMsgServerImpl(h.O)
}

// GenesisCtx is a context writing straight to the root store (genesis time).
func (h *Hub) GenesisCtx() sdk.Context {
	return sdk.NewContext(h.ms, tmproto.Header{Height: h.Height, Time: time.Unix(h.Time, 0).UTC()}, false, log.NewNopLogger())
}

// InitBase sets what the modules under test need from auth/bank.
func (h *Hub) InitBase() sdk.Context {
	ctx := h.GenesisCtx()
	h.Acc.SetParams(ctx, authtypes.DefaultParams())
	h.Bank.SetParams(ctx, banktypes.Params{DefaultSendEnabled: true})
	h.Acc.SetModuleAccount(ctx, authtypes.NewEmptyModuleAccount(mtypes.ModuleName, authtypes.Minter, authtypes.Burner))
	return ctx
}

// CopyStoreFrom copies one store's raw contents from another hub (used for auth and bank, which are not under test).
func (h *Hub) CopyStoreFrom(o *Hub, name string) {
	dst := h.GenesisCtx().KVStore(h.keys[name])
	for _, kv := range o.Dump(name) {
		dst.Set(kv.K, kv.V)
	}
}

// InitFromConfig runs the genesis derived from the configuration.
func (h *Hub) InitFromConfig() {
	cfg := h.Cfg
	ctx := h.GenesisCtx()
	h.Acc.SetParams(ctx, authtypes.DefaultParams())
	h.Bank.SetParams(ctx, banktypes.Params{DefaultSendEnabled: true})
	h.Acc.SetModuleAccount(ctx, authtypes.NewEmptyModuleAccount(mtypes.ModuleName, authtypes.Minter, authtypes.Burner))

	mkeeper.InitGenesis(ctx, h.K, h.GenesisState())

	og := otypes.DefaultGenesisState()
	if !cfg.NoPrices {
		ps := &otypes.Prices{}
		for _, p := range cfg.Prices {
			ps.List = append(ps.List, &otypes.Price{Name: p.Name, Value: sdk.MustNewDecFromStr(p.Value)})
		}
		og.Prices = ps
	}
	if len(cfg.Holders) > 0 {
		hs := &otypes.Holders{}
		for _, x := range cfg.Holders {
			v, _ := sdk.NewIntFromString(x.Value)
			hs.List = append(hs.List, &otypes.Holder{Address: x.Addr, Value: v})
		}
		og.Holders = hs
	}
	okeeper.InitGenesis(ctx, h.O, *og)

	for i := range cfg.Vals {
		a := sdk.AccAddress(ValAddr(i))
		h.Acc.SetAccount(ctx, h.Acc.NewAccountWithAddress(ctx, a))
	}
}

// GenesisState builds the mhub2 genesis from the configuration.
func (h *Hub) GenesisState() mtypes.GenesisState {
	cfg := h.Cfg
	p := mtypes.DefaultParams()
	p.GravityId = cfg.GravityId
	p.OutgoingTxTimeout = cfg.OutgoingTxTimeoutMs
	p.TargetEthTxTimeout = cfg.TargetEthTxTimeout
	p.AverageBlockTime = cfg.AvgBlockTime
	p.AverageEthereumBlockTime = cfg.AvgEthBlockTime
	p.AverageBscBlockTime = cfg.AvgBscBlockTime
	p.SignedSignerSetTxsWindow = cfg.SignerSetWindow
	p.Chains = append([]string{}, Chains...)
	if n := cfg.ParamSalt; n > 0 {
		p.ContractSourceHash = fmt.Sprintf("contract-hash-%d", n)
		p.BridgeEthereumAddress = fmt.Sprintf("0x%040x", 0xb21d6e0000+n)
		p.BridgeChainId = 1000 + n
		p.SignedBatchesWindow = 11000 + n
		p.EthereumSignaturesWindow = 12000 + n
		p.UnbondSlashingSignerSetTxsWindow = 13000 + n
		p.SlashFractionSignerSetTx = sdk.NewDecWithPrec(int64(2+n%7), 3)
		p.SlashFractionBatch = sdk.NewDecWithPrec(int64(3+n%5), 3)
		p.SlashFractionEthereumSignature = sdk.NewDecWithPrec(int64(4+n%3), 3)
		p.SlashFractionConflictingEthereumSignature = sdk.NewDecWithPrec(int64(5+n%11), 3)
	}
	ti := &mtypes.TokenInfos{}
	for _, t := range cfg.Tokens {
		ti.TokenInfos = append(ti.TokenInfos, &mtypes.TokenInfo{
			Id: t.Id, Denom: t.Denom, ChainId: t.Chain, ExternalTokenId: t.ExtId,
			ExternalDecimals: t.Decimals, Commission: sdk.MustNewDecFromStr(t.Commission),
		})
	}
	gs := mtypes.GenesisState{Params: p, TokenInfos: ti}
	for _, c := range Chains {
		es := &mtypes.ExternalState{ChainId: c, LastOutgoingBatchTxNonce: cfg.StartBatchNonce, Sequence: cfg.StartSequence}
		for i, v := range cfg.Vals {
			for _, kc := range v.Keys {
				if kc == c {
					es.DelegateKeys = append(es.DelegateKeys, &mtypes.MsgDelegateKeys{
						ValidatorAddress:    ValAddr(i).String(),
						OrchestratorAddress: OrchAddr(i).String(),
						ExternalAddress:     EthAddr(i, c, 0).Hex(),
						EthSignature:        []byte{1},
						ChainId:             c,
					})
				}
			}
		}
		gs.ExternalStates = append(gs.ExternalStates, es)
	}
	return gs
}

// ---------------------------------------------------------------- block lifecycle

func (h *Hub) baseCtx(ms sdk.MultiStore) sdk.Context {
	return sdk.NewContext(ms, tmproto.Header{Height: h.Height, Time: time.Unix(h.Time, 0).UTC()}, false, log.NewNopLogger())
}

// Ctx is the context of the running block (between Begin and End), or a
// read-only view of the committed state otherwise.
func (h *Hub) Ctx() sdk.Context {
	if h.inBlock {
		return h.ctx.WithEventManager(sdk.NewEventManager())
	}
	return h.baseCtx(h.ms.CacheMultiStore())
}

func (h *Hub) guarded(where string, f func()) (err error) {
	run := func() (e error) {
		defer func() {
			if r := recover(); r != nil {
				e = &BlockerError{Where: where, Panic: r, Stack: string(debug.Stack())}
			}
		}()
		f()
		return nil
	}
	if h.Watchdog == 0 {
		return run()
	}
	done := make(chan error, 1)
	go func() { done <- run() }()
	select {
	case e := <-done:
		return e
	case <-time.After(h.Watchdog):
		if st, dead := deadlockSignature(); dead {
			return &BlockerError{Where: where, Deadlock: true, Stack: st}
		}
		// give it generous extra time before calling it an overrun
		select {
		case e := <-done:
			return e
		case <-time.After(20 * h.Watchdog):
			if st, dead := deadlockSignature(); dead {
				return &BlockerError{Where: where, Deadlock: true, Stack: st}
			}
			// still running after 21 watchdog periods (a minute, against milliseconds normally): is it inside the blocker?
			buf := make([]byte, 1<<22)
			all := string(buf[:runtime.Stack(buf, true)])
			for _, g := range strings.Split(all, "\n\n") {
				if strings.Contains(g, "x/mhub2.BeginBlocker") || strings.Contains(g, "x/mhub2.EndBlocker") || strings.Contains(g, "x/oracle.EndBlocker") || strings.Contains(g, "keeper.Hooks.") {
					return &BlockerError{Where: where, Overrun: true, Hang: true, Stack: g}
				}
			}
			return &BlockerError{Where: where, Overrun: true}
		}
	}
}

// Begin starts block (height, unix time) and runs the mhub2 BeginBlocker.
func (h *Hub) Begin(height, unix int64) error {
	if h.inBlock {
		panic("Begin inside a block")
	}
	h.Height, h.Time = height, unix
	if h.NoBlockCache {
		h.cms = nil
		h.ctx = h.baseCtx(h.ms)
	} else {
		h.cms = h.ms.CacheMultiStore()
		h.ctx = h.baseCtx(h.cms)
	}
	h.inBlock = true
	h.Events = nil
	if h.Spec&2 != 0 && height%3 == 0 {
		h.wire()
	}
	if h.Spec&1 != 0 {
		h.speculateProposal()
	}
	em := sdk.NewEventManager()
	err := h.guarded("BeginBlocker(mhub2)", func() { mhub2.BeginBlocker(h.ctx.WithEventManager(em), h.K) })
	h.Events = append(h.Events, em.Events()...)
	return err
}

// QueueStaking schedules a validator-set change for the staking step of the
// running block's EndBlock.
func (h *Hub) QueueStaking(f func(*SimStaking)) { h.pending = append(h.pending, f) }

// End runs the staking step, EndBlocker(mhub2), EndBlocker(oracle) and commits.
func (h *Hub) End() error {
	if !h.inBlock {
		panic("End outside a block")
	}
	// the staking step: queued changes take effect, and x/staking tells the module through its hooks
	type st struct{ bonded, removed bool }
	was := make([]st, len(h.Staking.Vals))
	for i, v := range h.Staking.Vals {
		was[i] = st{v.Bonded && !v.Removed, v.Removed}
	}
	for _, f := range h.pending {
		f(h.Staking)
	}
	h.pending = nil
	em := sdk.NewEventManager()
	err := h.guarded("EndBlocker(staking hooks)", func() {
		hooks := h.K.Hooks()
		ctx := h.ctx.WithEventManager(em)
		for i, v := range h.Staking.Vals {
			if i >= len(was) {
				break
			}
			now := v.Bonded && !v.Removed
			switch {
			case was[i].bonded && !now:
				hooks.AfterValidatorBeginUnbonding(ctx, sdk.ConsAddress(ValAddr(i)), ValAddr(i))
			case !was[i].bonded && now:
				hooks.AfterValidatorBonded(ctx, sdk.ConsAddress(ValAddr(i)), ValAddr(i))
			}
			if v.Removed && !was[i].removed {
				hooks.AfterValidatorRemoved(ctx, sdk.ConsAddress(ValAddr(i)), ValAddr(i))
			}
		}
	})
	if err == nil {
		err = h.guarded("EndBlocker(mhub2)", func() { mhub2.EndBlocker(h.ctx.WithEventManager(em), h.K) })
	}
	if err == nil {
		err = h.guarded("EndBlocker(oracle)", func() { oracle.EndBlocker(h.ctx.WithEventManager(em), h.O) })
	}
	h.Events = append(h.Events, em.Events()...)
	if err != nil {
		return err
	}
	if h.cms != nil {
		h.cms.Write()
	}
	h.inBlock = false
	return nil
}

var ErrStateless = errors.New("stateless validation failed")

type TxResult struct {
	Err      error
	Panicked bool
	Events   []sdk.Event
	TxHash   string // hex sha256 of the tx bytes, as the module derives it
	Resp     interface{}
}

// Deliver runs one message as its own transaction: ValidateBasic, then the
// msg server in a cache context with panic recovery; writes only on success.
func (h *Hub) Deliver(msg sdk.Msg) TxResult {
	rs := h.DeliverTx([]sdk.Msg{msg})
	return rs[0]
}

// DeliverTx runs several messages as ONE transaction (same tx bytes, hence the
// same module-visible tx hash; all or nothing, as baseapp's runMsgs does).
func (h *Hub) DeliverTx(msgs []sdk.Msg) []TxResult {
	if !h.inBlock {
		panic("Deliver outside a block")
	}
	out := make([]TxResult, len(msgs))
	for i, msg := range msgs {
		if err := msg.ValidateBasic(); err != nil {
			for j := range out {
				out[j] = TxResult{Err: fmt.Errorf("%w: %v", ErrStateless, err)}
			}
			_ = i
			return out
		}
	}
	if h.Spec&1 != 0 && !h.speculating {
		// a dry run of the same transaction on a context that is thrown away
		h.speculating = true
		saveCtx, saveEvents, saveCount := h.ctx, h.Events, h.txCount
		h.ctx, _ = h.ctx.CacheContext()
		h.DeliverTx(msgs)
		h.ctx, h.Events, h.txCount = saveCtx, saveEvents, saveCount
		h.speculating = false
	}
	h.txCount++
	txBytes := []byte(fmt.Sprintf("verif-tx-%d", h.txCount))
	sum := sha256.Sum256(txBytes)
	hash := hex.EncodeToString(sum[:])
	cctx, write := h.ctx.WithTxBytes(txBytes).WithEventManager(sdk.NewEventManager()).CacheContext()
	failed := false
	for i, msg := range msgs {
		res := TxResult{TxHash: hash}
		if failed {
			res.Err = fmt.Errorf("transaction aborted by an earlier message")
			out[i] = res
			continue
		}
		func() {
			defer func() {
				if r := recover(); r != nil {
					res.Err = fmt.Errorf("panic in handler: %v", r)
					res.Panicked = true
				}
			}()
			c := sdk.WrapSDKContext(cctx)
			switch m := msg.(type) {
			case *mtypes.MsgSendToExternal:
				res.Resp, res.Err = h.Msg.SendToExternal(c, m)
			case *mtypes.MsgCancelSendToExternal:
				res.Resp, res.Err = h.Msg.CancelSendToExternal(c, m)
			case *mtypes.MsgRequestBatchTx:
				res.Resp, res.Err = h.Msg.RequestBatchTx(c, m)
			case *mtypes.MsgSubmitExternalEvent:
				res.Resp, res.Err = h.Msg.SubmitExternalEvent(c, m)
			case *mtypes.MsgSubmitExternalTxConfirmation:
				res.Resp, res.Err = h.Msg.SubmitTxConfirmation(c, m)
			case *mtypes.MsgDelegateKeys:
				res.Resp, res.Err = h.Msg.SetDelegateKeys(c, m)
			case *otypes.MsgPriceClaim:
				res.Resp, res.Err = h.OMsg.PriceClaim(c, m)
			case *otypes.MsgHoldersClaim:
				res.Resp, res.Err = h.OMsg.HoldersClaim(c, m)
			default:
				res.Err = fmt.Errorf("unroutable message %T", msg)
			}
		}()
		if res.Err != nil {
			failed = true
		}
		out[i] = res
	}
	if !failed {
		write()
		evs := cctx.EventManager().Events()
		h.Events = append(h.Events, evs...)
		out[len(out)-1].Events = evs
	} else {
		for i := range out {
			if out[i].Err == nil {
				out[i].Err = fmt.Errorf("transaction aborted by a later message")
			}
		}
	}
	return out
}

// Fund mints vouchers to an account outside any transaction (test set-up only;
// callers that track solvency must account for it as "locked" collateral).
func (h *Hub) Fund(addr sdk.AccAddress, denom string, amt *big.Int) {
	ctx := h.Ctx()
	coins := sdk.Coins{sdk.NewCoin(denom, sdk.NewIntFromBigInt(amt))}
	if err := h.Bank.MintCoins(ctx, mtypes.ModuleName, coins); err != nil {
		panic(err)
	}
	if err := h.Bank.SendCoinsFromModuleToAccount(ctx, mtypes.ModuleName, addr, coins); err != nil {
		panic(err)
	}
	if !h.inBlock {
		ctx.MultiStore().(sdk.CacheMultiStore).Write()
	}
}

// ---------------------------------------------------------------- observation

type KV struct{ K, V []byte }

// Dump returns all key/value pairs of a store, in key order.
func (h *Hub) Dump(storeName string) []KV {
	ctx := h.Ctx()
	it := ctx.KVStore(h.keys[storeName]).Iterator(nil, nil)
	defer it.Close()
	var out []KV
	for ; it.Valid(); it.Next() {
		out = append(out, KV{append([]byte{}, it.Key()...), append([]byte{}, it.Value()...)})
	}
	return out
}

// StateHash hashes the sorted contents of the mhub2, oracle and bank stores.
func (h *Hub) StateHash() string {
	hs := sha256.New()
	for _, n := range []string{mtypes.StoreKey, otypes.StoreKey, banktypes.StoreKey, authtypes.StoreKey} {
		for _, kv := range h.Dump(n) {
			fmt.Fprintf(hs, "%s|%d|", n, len(kv.K))
			hs.Write(kv.K)
			fmt.Fprintf(hs, "|%d|", len(kv.V))
			hs.Write(kv.V)
		}
	}
	return hex.EncodeToString(hs.Sum(nil))
}

func (h *Hub) Balance(a sdk.AccAddress, denom string) *big.Int {
	return h.Bank.GetBalance(h.Ctx(), a, denom).Amount.BigInt()
}

func (h *Hub) Supply(denom string) *big.Int {
	return h.Bank.GetSupply(h.Ctx(), denom).Amount.BigInt()
}

func (h *Hub) Pool(chain string) []*mtypes.SendToExternal {
	var out []*mtypes.SendToExternal
	h.K.IterateUnbatchedSendToExternals(h.Ctx(), mtypes.ChainID(chain), func(s *mtypes.SendToExternal) bool {
		out = append(out, s)
		return false
	})
	return out
}

func (h *Hub) Batches(chain string) []*mtypes.BatchTx {
	var out []*mtypes.BatchTx
	h.K.IterateOutgoingTxsByType(h.Ctx(), mtypes.ChainID(chain), mtypes.BatchTxPrefixByte, func(_ []byte, o mtypes.OutgoingTx) bool {
		out = append(out, o.(*mtypes.BatchTx))
		return false
	})
	sort.Slice(out, func(i, j int) bool { return out[i].BatchNonce < out[j].BatchNonce })
	return out
}

func (h *Hub) SignerSets(chain string) []*mtypes.SignerSetTx {
	out := h.K.GetSignerSetTxs(h.Ctx(), mtypes.ChainID(chain))
	sort.Slice(out, func(i, j int) bool { return out[i].Nonce < out[j].Nonce })
	return out
}

func (h *Hub) TokenByDenom(chain, denom string) *TokenCfg {
	for i := range h.Cfg.Tokens {
		if h.Cfg.Tokens[i].Chain == chain && h.Cfg.Tokens[i].Denom == denom {
			return &h.Cfg.Tokens[i]
		}
	}
	return nil
}

func (h *Hub) TokenByExt(chain, ext string) *TokenCfg {
	for i := range h.Cfg.Tokens {
		if h.Cfg.Tokens[i].Chain == chain && h.Cfg.Tokens[i].ExtId == ext {
			return &h.Cfg.Tokens[i]
		}
	}
	return nil
}

func (h *Hub) Denoms() []string {
	seen := map[string]bool{}
	var out []string
	for _, t := range h.Cfg.Tokens {
		if !seen[t.Denom] {
			seen[t.Denom] = true
			out = append(out, t.Denom)
		}
	}
	sort.Strings(out)
	return out
}

// speculateProposal runs, on a cache context that is thrown away, what x/gov runs when a TokenInfosChangeProposal is
// submitted: the module's proposal handler with a token list that differs from the stored one (other commissions).
func (h *Hub) speculateProposal() {
	defer func() { recover() }()
	cctx, _ := h.ctx.CacheContext()
	infos := h.K.GetTokenInfos(cctx)
	if infos == nil {
		return
	}
	cp := &mtypes.TokenInfos{}
	for _, ti := range infos.TokenInfos {
		c := *ti
		c.Commission = c.Commission.Add(sdk.NewDecWithPrec(3, 2))
		cp.TokenInfos = append(cp.TokenInfos, &c)
	}
	_ = mhub2.NewProposalsHandler(h.K)(cctx.WithEventManager(sdk.NewEventManager()), &mtypes.TokenInfosChangeProposal{NewInfos: cp})
}
