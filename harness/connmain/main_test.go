package main

// This file is compiled INTO the connector's package main (go test -overlay adds it to
// /repo/minter-connector/cmd/mhub-minter-connector without touching the repository; -modfile supplies a go.mod
// whose replace directives work in place). It drives the real relayMinterEvents / start-up sequence of main()
// against a scripted Minter node and a committer whose queue the test drains.

import (
	"flag"
	"fmt"
	"math/big"
	"net/http/httptest"
	"os"
	"path/filepath"
	"reflect"
	"runtime/debug"
	"strconv"
	"strings"
	"sync"
	"testing"
	"time"
	"unsafe"

	sdk "github.com/cosmos/cosmos-sdk/types"
	"github.com/tendermint/tendermint/libs/log"
	"pgregory.net/rapid"

	"github.com/MinterTeam/mhub2/minter-connector/config"
	mctx "github.com/MinterTeam/mhub2/minter-connector/context"
	"github.com/MinterTeam/mhub2/minter-connector/cosmos"
	"github.com/MinterTeam/mhub2/minter-connector/minter"
	"github.com/MinterTeam/mhub2/minter-connector/tx_committer"
	mtypes "github.com/MinterTeam/mhub2/module/x/mhub2/types"
	"github.com/MinterTeam/minter-go-sdk/v2/api/http_client"

	"verifharness/connkit"
	"verifharness/pbt"
)

// The connector's packages parse the command line in package-level initialisers (config.Get), before the testing
// and rapid flags exist. The binary is therefore started with `-config <file>` only; everything else arrives in
// VERIF_ARGS and is applied with flag.Set once the flags are registered.
func TestMain(m *testing.M) {
	args := strings.Fields(os.Getenv("VERIF_ARGS"))
	for i := 0; i < len(args); i++ {
		name := strings.TrimLeft(args[i], "-")
		val := "true"
		if j := strings.Index(name, "="); j >= 0 {
			name, val = name[:j], name[j+1:]
		} else if i+1 < len(args) && !strings.HasPrefix(args[i+1], "-") {
			val = args[i+1]
			i++
		}
		if err := flag.Set(name, val); err != nil {
			println("bad VERIF_ARGS entry", name, err.Error())
			os.Exit(2)
		}
	}
	cosmos.Setup() // bech32 prefix "hub", as main() does
	if cfg.Minter.MultisigAddr != connkit.Multisig {
		println("config file does not name the scripted node's multisig")
		os.Exit(2)
	}
	os.Exit(m.Run())
}

// ---------------------------------------------------------------- committer whose queue the test drains

// tx_committer.Server queues the messages of CommitTx and blocks until its run loop has broadcast them. The test
// plays the run loop: it takes the queued messages out (fields reached through reflect/unsafe, the type has no
// constructor that works without a chain) and releases the caller.
type drain struct {
	srv  *tx_committer.Server
	mu   sync.Mutex
	got  [][]sdk.Msg // one entry per CommitTx call
	stop chan struct{}
	done chan struct{}
}

func newDrain() *drain {
	d := &drain{srv: &tx_committer.Server{}, stop: make(chan struct{}), done: make(chan struct{})}
	sv := reflect.ValueOf(d.srv).Elem()
	lockF, jobsF := sv.FieldByName("lock"), sv.FieldByName("jobs")
	if !lockF.IsValid() || !jobsF.IsValid() {
		panic("tx_committer.Server has no lock/jobs fields any more")
	}
	lock := (*sync.Mutex)(unsafe.Pointer(lockF.UnsafeAddr()))
	jobs := reflect.NewAt(jobsF.Type(), unsafe.Pointer(jobsF.UnsafeAddr())).Elem()
	go func() {
		defer close(d.done)
		for {
			select {
			case <-d.stop:
				return
			default:
			}
			lock.Lock()
			n := jobs.Len()
			if n > 0 {
				var msgs []sdk.Msg
				var cbs []func()
				for i := 0; i < n; i++ {
					j := jobs.Index(i)
					mf, cf := j.FieldByName("msg"), j.FieldByName("callback")
					msgs = append(msgs, reflect.NewAt(mf.Type(), unsafe.Pointer(mf.UnsafeAddr())).Elem().Interface().(sdk.Msg))
					cbs = append(cbs, reflect.NewAt(cf.Type(), unsafe.Pointer(cf.UnsafeAddr())).Elem().Interface().(func()))
				}
				jobs.Set(reflect.Zero(jobs.Type()))
				d.mu.Lock()
				d.got = append(d.got, msgs)
				d.mu.Unlock()
				for _, cb := range cbs {
					cb()
				}
			}
			lock.Unlock()
			if n == 0 {
				time.Sleep(20 * time.Microsecond)
			}
		}
	}()
	return d
}

func (d *drain) take() [][]sdk.Msg {
	d.mu.Lock()
	defer d.mu.Unlock()
	g := d.got
	d.got = nil
	return g
}

func (d *drain) close() { close(d.stop); <-d.done }

// ---------------------------------------------------------------- case

type MStep struct {
	Kind string `json:"kind"` // grow | relay | restart | crash | flaky (the node's next block request fails once; the connector retries after a second)
	N    int    `json:"n,omitempty"`
}

type MainCase struct {
	Blocks []connkit.MBlock `json:"blocks"`
	Gaps   []int            `json:"gaps"` // empty blocks in front of Blocks[i]
	Steps  []MStep          `json:"steps"`
}

var hubRecipients []string

func payloadFor(kind, who int, fee string) (payload, typ, rcpt string) {
	switch kind {
	case 0:
		typ, rcpt = "send_to_hub", hubRecipients[who%len(hubRecipients)]
	case 1:
		typ, rcpt = "send_to_ethereum", fmt.Sprintf("0x%040x", 0xe000+who)
	default:
		typ, rcpt = "send_to_bsc", fmt.Sprintf("0x%040x", 0xb000+who)
	}
	return fmt.Sprintf(`{"type":"%s","recipient":"%s","fee":"%s"}`, typ, rcpt, fee), typ, rcpt
}

// genBadPayload: payloads that cannot be a well-formed command whatever the decoder does with the rest: a top-level value
// that is no object, or an object in which at least one of type / recipient / fee is absent, null or not a string.
func genBadPayload(t *rapid.T) string {
	if rapid.IntRange(0, 3).Draw(t, "toplevel") == 0 {
		return rapid.SampledFrom([]string{`null`, `[]`, `[null]`, `0`, `"send_to_hub"`, `true`, ``, ` `, `{`, `[{"type":"send_to_hub"}]`, ` null `}).Draw(t, "top")
	}
	good := map[string]string{"type": `"send_to_hub"`, "recipient": `"` + hubRecipients[0] + `"`, "fee": `"0"`}
	keys := rapid.Permutation([]string{"type", "recipient", "fee"}).Draw(t, "order")
	spoil := rapid.IntRange(0, 2).Draw(t, "spoil")
	var parts []string
	for i, k := range keys {
		v := good[k]
		if i == spoil || rapid.IntRange(0, 3).Draw(t, "also") == 0 {
			v = rapid.SampledFrom([]string{"", "null", "0", "{}", "[]", "false"}).Draw(t, "spoiled")
		}
		if v == "" {
			continue
		}
		parts = append(parts, `"`+k+`":`+v)
	}
	return "{" + strings.Join(parts, ",") + "}"
}

func genMainCase(t *rapid.T) interface{} {
	c := &MainCase{}
	n := rapid.IntRange(2, 12).Draw(t, "nblocks")
	valset := 1
	for i := 0; i < n; i++ {
		var b connkit.MBlock
		k := rapid.SampledFrom([]int{0, 1, 1, 2, 2, 3, 4, 6, 9, 12}).Draw(t, "ntx")
		for j := 0; j < k; j++ {
			switch rapid.IntRange(0, 12).Draw(t, "txkind") {
			case 0, 1, 2, 3, 4:
				val := new(big.Int).Mul(big.NewInt(rapid.Int64Range(1000, 1<<40).Draw(t, "val")), big.NewInt(rapid.SampledFrom([]int64{1, 1000000, 1000000000000}).Draw(t, "scale")))
				fee := fmt.Sprint(rapid.Int64Range(0, 9).Draw(t, "fee"))
				pl, _, _ := payloadFor(rapid.IntRange(0, 2).Draw(t, "dkind"), rapid.IntRange(0, 2).Draw(t, "who"), fee)
				b.Txs = append(b.Txs, connkit.MTx{Kind: "deposit", Payload: pl, From: rapid.IntRange(1, 3).Draw(t, "from"), Value: val.String(), Coin: rapid.SampledFrom([]int{1, 10}).Draw(t, "coin")})
			case 5:
				if rapid.IntRange(0, 1).Draw(t, "grammar") == 0 {
					b.Txs = append(b.Txs, connkit.MTx{Kind: "bad-deposit", Payload: genBadPayload(t)})
					break
				}
				b.Txs = append(b.Txs, connkit.MTx{Kind: "bad-deposit", Payload: rapid.SampledFrom([]string{`{"type":"send_to_ethereum","recipient":"0x58BD","fee":"1"}`, `not json`, `{"type":"teleport","recipient":"x","fee":"1"}`, `{"type":"send_to_bsc","recipient":"0x58BD8047F441B9D511aEE9c581aEb1caB4FE0b6d","fee":"-1"}`,
					// payloads that parse but leave fields out (a decoder must not fill them from anything seen before)
					`{"fee":"0"}`, `{}`, `null`, `{"recipient":"0x58BD8047F441B9D511aEE9c581aEb1caB4FE0b6d"}`, `{"type":"send_to_hub","fee":"0"}`}).Draw(t, "bad")})
			case 6:
				pl, _, _ := payloadFor(0, 0, "0")
				b.Txs = append(b.Txs, connkit.MTx{Kind: "send-elsewhere", Payload: pl})
			case 7, 8:
				b.Txs = append(b.Txs, connkit.MTx{Kind: "batch", Coin: rapid.SampledFrom([]int{1, 10}).Draw(t, "bcoin")})
			case 9:
				b.Txs = append(b.Txs, connkit.MTx{Kind: "foreign-multisend"})
			case 10:
				valset++
				b.Txs = append(b.Txs, connkit.MTx{Kind: "valset", Payload: fmt.Sprint(valset)})
			case 11:
				b.Txs = append(b.Txs, connkit.MTx{Kind: "valset-bad", Payload: "x" + fmt.Sprint(valset)})
			default:
				b.Txs = append(b.Txs, connkit.MTx{Kind: "other"})
			}
			if rapid.IntRange(0, 11).Draw(t, "failed") == 0 {
				b.Txs[len(b.Txs)-1].Failed = true // a failed Minter transaction is no bridge event
			}
		}
		c.Blocks = append(c.Blocks, b)
		c.Gaps = append(c.Gaps, rapid.SampledFrom([]int{0, 0, 0, 0, 0, 0, 1, 3, 98, 99, 100, 101, 199, 205}).Draw(t, "gap"))
	}
	ns := rapid.IntRange(3, 14).Draw(t, "nsteps")
	c.Steps = append(c.Steps, MStep{Kind: "grow", N: rapid.IntRange(0, 3).Draw(t, "g0")})
	for i := 0; i < ns; i++ {
		switch rapid.IntRange(0, 9).Draw(t, "step") {
		case 0, 1, 2:
			// mostly a few blocks at a time; now and then the connector falls far behind (one page is 100 blocks)
			c.Steps = append(c.Steps, MStep{Kind: "grow", N: rapid.SampledFrom([]int{1, 1, 2, 2, 3, 4, 30, 101, 150, 250, 420}).Draw(t, "g")})
		case 3, 4, 5, 6:
			c.Steps = append(c.Steps, MStep{Kind: "relay"})
		case 7, 8:
			c.Steps = append(c.Steps, MStep{Kind: "restart"})
		default:
			c.Steps = append(c.Steps, MStep{Kind: "crash", N: rapid.IntRange(1, 3).Draw(t, "back")})
		}
	}
	if rapid.IntRange(0, 11).Draw(t, "flaky") == 0 && len(c.Steps) > 2 {
		// one transient node error, right before a restart or a scan somewhere in the history
		at := rapid.IntRange(1, len(c.Steps)-1).Draw(t, "flakyat")
		c.Steps = append(c.Steps[:at], append([]MStep{{Kind: "flaky"}}, c.Steps[at:]...)...)
	}
	c.Steps = append(c.Steps, MStep{Kind: "grow", N: 100}, MStep{Kind: "relay"}, MStep{Kind: "relay"}, MStep{Kind: "relay"}, MStep{Kind: "relay"})
	return c
}

// ---------------------------------------------------------------- reference

type refEvent struct {
	nonce  uint64
	height uint64
	idx    int
	tx     connkit.MTx
}

type cur struct{ Block, Event, Batch, Valset uint64 }

func describeEvent(e mtypes.ExternalEvent) string {
	switch x := e.(type) {
	case *mtypes.SendToHubEvent:
		return fmt.Sprintf("to-hub coin=%s amount=%s sender=%s receiver=%s height=%d tx=%s", x.ExternalCoinId, x.Amount, strings.ToLower(x.Sender), x.CosmosReceiver, x.ExternalHeight, x.TxHash)
	case *mtypes.TransferToChainEvent:
		return fmt.Sprintf("to-chain coin=%s amount=%s fee=%s sender=%s chain=%s receiver=%s height=%d tx=%s", x.ExternalCoinId, x.Amount, x.Fee, strings.ToLower(x.Sender), x.ReceiverChainId, strings.ToLower(x.ExternalReceiver), x.ExternalHeight, x.TxHash)
	case *mtypes.BatchExecutedEvent:
		return fmt.Sprintf("batch coin=%s batch-nonce=%d height=%d tx=%s", x.ExternalCoinId, x.BatchNonce, x.ExternalHeight, x.TxHash)
	case *mtypes.SignerSetTxExecutedEvent:
		ms := ""
		for _, m := range x.Members {
			ms += fmt.Sprintf("%s:%d,", strings.ToLower(m.ExternalAddress), m.Power)
		}
		return fmt.Sprintf("valset nonce=%d members=%s height=%d tx=%s", x.SignerSetTxNonce, ms, x.ExternalHeight, x.TxHash)
	}
	return fmt.Sprintf("%T", e)
}

func runMainCase(ci interface{}, rec *pbt.Rec) (fail *pbt.Failure) {
	c := ci.(*MainCase)
	// a panic raised inside the connector's own code ends the process as it would end the real one: whatever history and
	// payload led there is an input the connector cannot get past (it meets the same block again after every restart)
	defer func() {
		if r := recover(); r != nil {
			where := ""
			for _, l := range strings.Split(string(debug.Stack()), "\n") {
				if strings.Contains(l, "/minter-connector/") && !strings.Contains(l, "zz_verif") && strings.Contains(l, ".go:") {
					where = strings.TrimSpace(l)
					if i := strings.Index(where, " +0x"); i > 0 {
						where = where[:i]
					}
					where = where[strings.Index(where, "/minter-connector/")+1:]
					break
				}
			}
			if where == "" {
				panic(r)
			}
			fail = pbt.Failf("connector-panics", "the connector panics at %s: %v", where, r)
		}
	}()
	// lay the history out: gaps become empty blocks
	var blocks []connkit.MBlock
	for i, b := range c.Blocks {
		g := 0
		if i < len(c.Gaps) {
			g = c.Gaps[i]
		}
		for k := 0; k < g; k++ {
			blocks = append(blocks, connkit.MBlock{})
		}
		blocks = append(blocks, b)
	}
	total := uint64(len(blocks))
	// reference numbering and the expected claim per event
	var evs []refEvent
	expect := map[uint64]string{}
	curAt := make([]cur, total+1)
	cc := cur{0, 1, 1, 0}
	curAt[0] = cc
	for h := uint64(1); h <= total; h++ {
		for i, tx := range blocks[h-1].Txs {
			if !tx.IsEvent() {
				continue
			}
			e := refEvent{nonce: cc.Event, height: h, idx: i, tx: tx}
			evs = append(evs, e)
			hash := connkit.TxHash(h, i)
			switch tx.Kind {
			case "deposit":
				var cmd struct{ Type, Recipient, Fee string }
				p := tx.Payload
				get := func(k string) string {
					j := strings.Index(p, `"`+k+`":"`)
					if j < 0 {
						return ""
					}
					r := p[j+len(k)+4:]
					return r[:strings.Index(r, `"`)]
				}
				cmd.Type, cmd.Recipient, cmd.Fee = get("type"), get("recipient"), get("fee")
				sender := "0x" + strings.ToLower(tx.FromAddr()[2:])
				if cmd.Type == "send_to_hub" {
					expect[e.nonce] = fmt.Sprintf("to-hub coin=%d amount=%s sender=%s receiver=%s height=%d tx=%s", tx.CoinID(), tx.ValueStr(), sender, cmd.Recipient, h, hash)
				} else {
					chain := map[string]string{"send_to_ethereum": "ethereum", "send_to_bsc": "bsc"}[cmd.Type]
					expect[e.nonce] = fmt.Sprintf("to-chain coin=%d amount=%s fee=%s sender=%s chain=%s receiver=%s height=%d tx=%s", tx.CoinID(), tx.ValueStr(), cmd.Fee, sender, chain, strings.ToLower(cmd.Recipient), h, hash)
				}
			case "batch":
				expect[e.nonce] = fmt.Sprintf("batch coin=%d batch-nonce=%d height=%d tx=%s", tx.CoinID(), cc.Batch, h, hash)
				cc.Batch++
			case "valset":
				v, _ := strconv.Atoi(tx.Payload)
				cc.Valset = uint64(v)
				expect[e.nonce] = fmt.Sprintf("valset nonce=%d members=%s height=%d tx=%s", v,
					fmt.Sprintf("0x%s:500,0x%s:500,", strings.ToLower(connkit.OtherAddr[2:]), strings.ToLower(connkit.Multisig[2:])), h, hash)
			}
			cc.Event++
		}
		cc.Block = h
		curAt[h] = cc
	}

	nd := &connkit.Node{Blocks: blocks}
	srv := httptest.NewServer(nd)
	defer srv.Close()
	client, err := http_client.New(srv.URL)
	if err != nil {
		return pbt.Failf("harness", "client: %v", err)
	}
	dir, err := os.MkdirTemp("", "c20main")
	if err != nil {
		return pbt.Failf("harness", "tmp: %v", err)
	}
	defer os.RemoveAll(dir)
	file := filepath.Join(dir, "connector-status.json")
	dr := newDrain()
	defer dr.close()
	orc := sdk.AccAddress([]byte{9, 9, 9, 9, 9, 9, 9, 9, 9, 9, 1, 2, 3, 4, 5, 6, 7, 8, 9, 0})
	defaults := config.MinterConfig{StartBlock: 0, StartEventNonce: 1, StartBatchNonce: 1, StartValsetNonce: 0}

	var ctx mctx.Context
	start := func(ack uint64) {
		ctx = mctx.Context{MinterMultisigAddr: cfg.Minter.MultisigAddr, MinterClient: client, OrcAddress: orc, TxCommitter: dr.srv, Logger: log.NewNopLogger()}
		ctx.LoadStatus(file, defaults)
		ctx = minter.GetLatestMinterBlockAndNonce(ctx, ack) // as main() does before its loop
	}
	memCur := func() cur {
		return cur{ctx.LastCheckedMinterBlock(), ctx.LastEventNonce(), ctx.LastBatchNonce(), ctx.LastValsetNonce()}
	}
	visible := uint64(0)
	acked := uint64(0)               // highest event nonce this validator has committed to the hub
	var history [][]byte             // earlier contents of the status file (for crashes)
	claimedAs := map[string]uint64{} // tx hash -> nonce it was claimed with
	var relays, restarts, crashes, capped, claimedEvents, multiBlockBatches int
	started := false

	checkCursor := func(where string) *pbt.Failure {
		m := memCur()
		if m.Block > visible {
			return pbt.Failf("cursor-beyond-node", "%s: last checked block %d, the node is at %d", where, m.Block, visible)
		}
		if want := curAt[m.Block]; m != want {
			return pbt.Failf("cursor-inconsistent", "%s: connector holds {block %d, next event %d, next batch %d, valset %d}; %d bridge events lie at or below block %d, so it must be {next event %d, next batch %d, valset %d}",
				where, m.Block, m.Event, m.Batch, m.Valset, want.Event-1, m.Block, want.Event, want.Batch, want.Valset)
		}
		return nil
	}

	for si, st := range c.Steps {
		switch st.Kind {
		case "grow":
			visible += uint64(st.N)
			if visible > total {
				visible = total
			}
			nd.SetLatest(visible)
			if !started {
				start(0)
				started = true
				if f := checkCursor(fmt.Sprintf("step %d (first start, node at %d)", si, visible)); f != nil {
					return f
				}
			}
		case "flaky":
			nd.Mu.Lock()
			nd.FailBlocks = 1
			nd.Mu.Unlock()
			rec.Label("transient-node-error")
		case "restart", "crash":
			if st.Kind == "crash" && len(history) > 0 {
				// the process died after the hub took its claims but before the cursor was written: an older file is found
				k := st.N
				if k > len(history) {
					k = len(history)
				}
				os.WriteFile(file, history[len(history)-k], 0o644)
				crashes++
			}
			start(acked)
			restarts++
			if f := checkCursor(fmt.Sprintf("step %d (%s, hub acknowledged %d, node at %d)", si, st.Kind, acked, visible)); f != nil {
				return f
			}
			if acked > 0 && ctx.LastEventNonce() != acked+1 {
				return pbt.Failf("resume-point", "step %d: restarted with hub-acknowledged nonce %d, the connector goes on with nonce %d", si, acked, ctx.LastEventNonce())
			}
			if acked == 0 {
				// a validator the hub has heard nothing from joins at the node's current position
				if ctx.LastCheckedMinterBlock() != visible {
					return pbt.Failf("resume-point", "step %d: first claims of this validator start at block %d, the node is at %d", si, ctx.LastCheckedMinterBlock(), visible)
				}
			}
		case "relay":
			before := memCur()
			ctx = relayMinterEvents(ctx)
			relays++
			after := memCur()
			if f := checkCursor(fmt.Sprintf("step %d (relay from block %d, node at %d)", si, before.Block, visible)); f != nil {
				return f
			}
			wantTo := visible
			if visible-before.Block > 100 {
				wantTo = before.Block + 100
				capped++
			}
			if after.Block != wantTo {
				return pbt.Failf("scan-range", "step %d: relay started after block %d with the node at %d and stopped at block %d (expected %d)", si, before.Block, visible, after.Block, wantTo)
			}
			calls := dr.take()
			var msgs []sdk.Msg
			for _, m := range calls {
				msgs = append(msgs, m...)
			}
			if len(calls) > 1 {
				return pbt.Failf("claims-split", "step %d: one scan committed its claims in %d transactions", si, len(calls))
			}
			// the events of (before.Block, after.Block], in order, each with its reference nonce
			var want []refEvent
			for _, e := range evs {
				if e.height > before.Block && e.height <= after.Block {
					want = append(want, e)
				}
			}
			if len(msgs) != len(want) {
				return pbt.Failf("claim-count", "step %d: blocks %d..%d hold %d bridge events, %d claims were committed", si, before.Block+1, after.Block, len(want), len(msgs))
			}
			hs := map[uint64]bool{}
			for i, m := range msgs {
				sm, ok := m.(*mtypes.MsgSubmitExternalEvent)
				if !ok || sm.ChainId != "minter" || sm.Signer != orc.String() {
					return pbt.Failf("claim-envelope", "step %d: claim %d is %T", si, i, m)
				}
				ev, err := mtypes.UnpackEvent(sm.Event)
				if err != nil {
					return pbt.Failf("harness", "unpack: %v", err)
				}
				w := want[i]
				if ev.GetEventNonce() != w.nonce {
					return pbt.Failf("event-nonce", "step %d: the bridge event in block %d (tx %d, %s) is event %d of this history, it was claimed as nonce %d (claim #%d of the scan)", si, w.height, w.idx, w.tx.Kind, w.nonce, ev.GetEventNonce(), i+1)
				}
				if got := describeEvent(ev); got != expect[w.nonce] {
					return pbt.Failf("claim-content", "step %d: event %d was found as [%s], the claim says [%s]", si, w.nonce, expect[w.nonce], got)
				}
				if err := sm.ValidateBasic(); err != nil {
					return pbt.Failf("claim-invalid", "step %d: claim for nonce %d fails ValidateBasic: %v", si, w.nonce, err)
				}
				h := connkit.TxHash(w.height, w.idx)
				if prev, dup := claimedAs[h]; dup && prev != w.nonce {
					return pbt.Failf("renumbered", "step %d: transaction %s was claimed as nonce %d earlier and as %d now", si, h, prev, w.nonce)
				}
				claimedAs[h] = w.nonce
				hs[w.height] = true
				claimedEvents++
			}
			if len(hs) >= 2 {
				multiBlockBatches++
			}
			if len(want) > 0 {
				if acked > 0 && want[0].nonce != acked+1 {
					return pbt.Failf("claims-not-contiguous", "step %d: the hub has nonce %d from this validator, the next claims start at %d", si, acked, want[0].nonce)
				}
				acked = want[len(want)-1].nonce
			}
			if b, err := os.ReadFile(file); err == nil {
				history = append(history, b)
			}
		}
	}
	rec.NonTrivial = claimedEvents >= 2 && restarts >= 1 && relays >= 2
	rec.Label(fmt.Sprintf("restarts=%d", minInt(restarts, 3)))
	if crashes > 0 {
		rec.Label("crash-with-stale-cursor")
	}
	if capped > 0 {
		rec.Label("scan-capped-at-100-blocks")
	}
	if multiBlockBatches > 0 {
		rec.Label("claims-of-several-blocks-in-one-tx")
	}
	return nil
}

func minInt(a, b int) int {
	if a < b {
		return a
	}
	return b
}

func TestC20Main(t *testing.T) {
	raw := [][]byte{{1, 2, 3, 4, 5, 6, 7, 8, 9, 10, 11, 12, 13, 14, 15, 16, 17, 18, 19, 20}, {2, 2, 3, 4, 5, 6, 7, 8, 9, 10, 11, 12, 13, 14, 15, 16, 17, 18, 19, 21}, {3, 2, 3, 4, 5, 6, 7, 8, 9, 10, 11, 12, 13, 14, 15, 16, 17, 18, 19, 22}}
	hubRecipients = nil
	for _, r := range raw {
		hubRecipients = append(hubRecipients, sdk.AccAddress(r).String())
	}
	(&pbt.Check{
		ID:          "C20",
		Part:        "main",
		Rule:        "the connector's own package main, compiled with this test added through go test -overlay: Minter histories (deposits of several senders / coins / targets, invalid commands, transfers elsewhere, batches, multisig edits, foreign multisends, runs of up to 205 empty blocks) revealed to the connector in steps; the start-up sequence of main() (LoadStatus, GetLatestMinterBlockAndNonce with the nonce the hub acknowledged) and relayMinterEvents run against a scripted node, with restarts and crashes that leave an older status file behind; every claim the scan commits must carry the event's position in the history as its nonce and exactly the transaction's content, claims of one scan are contiguous with what the hub has, no transaction is ever claimed under two nonces, and after every step the cursor equals the reference cursor at its last-checked block; non-trivial = >=2 claimed events, >=2 scans and >=1 restart; distinct = distinct case JSON",
		Gen:         genMainCase,
		New:         func() interface{} { return &MainCase{} },
		Run:         runMainCase,
		Assumptions: []string{"the hub acknowledges exactly what the connector committed (claims refused by the hub are C03's subject)", "tx_committer.Server's queue is drained by the test instead of being broadcast; its fields are reached through reflect/unsafe"},
	}).Main(t)
}
