module github.com/MinterTeam/mhub2/minter-connector

go 1.23

toolchain go1.23.5

replace github.com/gogo/protobuf => github.com/regen-network/protobuf v1.3.2-alpha.regen.4

replace github.com/MinterTeam/mhub2/module => /repo/module

replace verifharness => /verif/harness

replace github.com/MinterTeam/mhub2/minter-connector => /repo/minter-connector

replace github.com/MinterTeam/mhub2/keys-generator => /repo/keys-generator

require (
	github.com/MinterTeam/mhub2/module v0.0.0
	github.com/MinterTeam/minter-go-sdk/v2 v2.5.2
	github.com/cosmos/cosmos-sdk v0.45.4
	github.com/cosmos/go-bip39 v1.0.0
	github.com/ethereum/go-ethereum v1.10.25
	github.com/golang/protobuf v1.5.2
	github.com/mitchellh/mapstructure v1.4.3
	github.com/spf13/viper v1.10.1
	github.com/tendermint/tendermint v0.34.19
	google.golang.org/grpc v1.45.0
	google.golang.org/protobuf v1.27.1
	pgregory.net/rapid v1.3.0
	verifharness v0.0.0
)

require (
	filippo.io/edwards25519 v1.0.0-beta.2 // indirect
	github.com/99designs/keyring v1.1.6 // indirect
	github.com/ChainSafe/go-schnorrkel v0.0.0-20200405005733-88cbf1b4c40d // indirect
	github.com/DataDog/zstd v1.4.5 // indirect
	github.com/FactomProject/basen v0.0.0-20150613233007-fe3947df716e // indirect
	github.com/FactomProject/btcutilecc v0.0.0-20130527213604-d3a63a5752ec // indirect
	github.com/PuerkitoBio/purell v1.1.1 // indirect
	github.com/PuerkitoBio/urlesc v0.0.0-20170810143723-de5bf2ad4578 // indirect
	github.com/armon/go-metrics v0.3.10 // indirect
	github.com/asaskevich/govalidator v0.0.0-20210307081110-f21760c49a8d // indirect
	github.com/beorn7/perks v1.0.1 // indirect
	github.com/bgentry/speakeasy v0.1.0 // indirect
	github.com/btcsuite/btcd v0.22.0-beta // indirect
	github.com/cespare/xxhash v1.1.0 // indirect
	github.com/cespare/xxhash/v2 v2.1.2 // indirect
	github.com/confio/ics23/go v0.6.6 // indirect
	github.com/cosmos/btcutil v1.0.4 // indirect
	github.com/cosmos/iavl v0.17.3 // indirect
	github.com/cosmos/ibc-go v1.0.1 // indirect
	github.com/cosmos/ledger-cosmos-go v0.11.1 // indirect
	github.com/cosmos/ledger-go v0.9.2 // indirect
	github.com/danieljoos/wincred v1.0.2 // indirect
	github.com/davecgh/go-spew v1.1.1 // indirect
	github.com/dgraph-io/badger/v2 v2.2007.2 // indirect
	github.com/dgraph-io/ristretto v0.0.3 // indirect
	github.com/dgryski/go-farm v0.0.0-20200201041132-a6ae2369ad13 // indirect
	github.com/dustin/go-humanize v1.0.0 // indirect
	github.com/dvsekhvalnov/jose2go v0.0.0-20200901110807-248326c1351b // indirect
	github.com/felixge/httpsnoop v1.0.1 // indirect
	github.com/fsnotify/fsnotify v1.5.1 // indirect
	github.com/go-kit/kit v0.12.0 // indirect
	github.com/go-kit/log v0.2.0 // indirect
	github.com/go-logfmt/logfmt v0.5.1 // indirect
	github.com/go-openapi/analysis v0.21.1 // indirect
	github.com/go-openapi/errors v0.20.1 // indirect
	github.com/go-openapi/jsonpointer v0.19.5 // indirect
	github.com/go-openapi/jsonreference v0.19.6 // indirect
	github.com/go-openapi/loads v0.21.0 // indirect
	github.com/go-openapi/runtime v0.21.0 // indirect
	github.com/go-openapi/spec v0.20.4 // indirect
	github.com/go-openapi/strfmt v0.21.1 // indirect
	github.com/go-openapi/swag v0.19.15 // indirect
	github.com/go-openapi/validate v0.20.3 // indirect
	github.com/go-stack/stack v1.8.1 // indirect
	github.com/godbus/dbus v0.0.0-20190726142602-4481cbc300e2 // indirect
	github.com/gogo/gateway v1.1.0 // indirect
	github.com/gogo/protobuf v1.3.3 // indirect
	github.com/golang/snappy v0.0.4 // indirect
	github.com/google/btree v1.0.0 // indirect
	github.com/gorilla/handlers v1.5.1 // indirect
	github.com/gorilla/mux v1.8.0 // indirect
	github.com/gorilla/websocket v1.5.0 // indirect
	github.com/grpc-ecosystem/go-grpc-middleware v1.3.0 // indirect
	github.com/grpc-ecosystem/grpc-gateway v1.16.0 // indirect
	github.com/gsterjov/go-libsecret v0.0.0-20161001094733-a6f4afe4910c // indirect
	github.com/gtank/merlin v0.1.1 // indirect
	github.com/gtank/ristretto255 v0.1.2 // indirect
	github.com/hashicorp/go-immutable-radix v1.3.1 // indirect
	github.com/hashicorp/golang-lru v0.5.5-0.20210104140557-80c98217689d // indirect
	github.com/hashicorp/hcl v1.0.0 // indirect
	github.com/hdevalence/ed25519consensus v0.0.0-20210204194344-59a8610d2b87 // indirect
	github.com/inconshreveable/mousetrap v1.0.0 // indirect
	github.com/jmhodges/levigo v1.0.0 // indirect
	github.com/josharian/intern v1.0.0 // indirect
	github.com/keybase/go-keychain v0.0.0-20190712205309-48d3d31d256d // indirect
	github.com/libp2p/go-buffer-pool v0.0.2 // indirect
	github.com/magiconair/properties v1.8.5 // indirect
	github.com/mailru/easyjson v0.7.7 // indirect
	github.com/mattn/go-isatty v0.0.14 // indirect
	github.com/matttproud/golang_protobuf_extensions v1.0.1 // indirect
	github.com/mimoo/StrobeGo v0.0.0-20181016162300-f8f6d4d2b643 // indirect
	github.com/mitchellh/go-homedir v1.1.0 // indirect
	github.com/mtibben/percent v0.2.1 // indirect
	github.com/oklog/ulid v1.3.1 // indirect
	github.com/opentracing/opentracing-go v1.2.0 // indirect
	github.com/pelletier/go-toml v1.9.4 // indirect
	github.com/petermattis/goid v0.0.0-20180202154549-b0b1615b78e5 // indirect
	github.com/pkg/errors v0.9.1 // indirect
	github.com/pmezard/go-difflib v1.0.0 // indirect
	github.com/prometheus/client_golang v1.12.1 // indirect
	github.com/prometheus/client_model v0.2.0 // indirect
	github.com/prometheus/common v0.32.1 // indirect
	github.com/prometheus/procfs v0.7.3 // indirect
	github.com/rakyll/statik v0.1.7 // indirect
	github.com/rcrowley/go-metrics v0.0.0-20200313005456-10cdbea86bc0 // indirect
	github.com/regen-network/cosmos-proto v0.3.1 // indirect
	github.com/sasha-s/go-deadlock v0.2.1-0.20190427202633-1595213edefa // indirect
	github.com/spf13/afero v1.6.0 // indirect
	github.com/spf13/cast v1.4.1 // indirect
	github.com/spf13/cobra v1.4.0 // indirect
	github.com/spf13/jwalterweatherman v1.1.0 // indirect
	github.com/spf13/pflag v1.0.5 // indirect
	github.com/stretchr/testify v1.7.2 // indirect
	github.com/subosito/gotenv v1.2.0 // indirect
	github.com/syndtr/goleveldb v1.0.1-0.20210819022825-2ae1ddf74ef7 // indirect
	github.com/tecbot/gorocksdb v0.0.0-20191217155057-f0fad39f321c // indirect
	github.com/tendermint/btcd v0.1.1 // indirect
	github.com/tendermint/crypto v0.0.0-20191022145703-50d29ede1e15 // indirect
	github.com/tendermint/go-amino v0.16.0 // indirect
	github.com/tendermint/tm-db v0.6.6 // indirect
	github.com/tyler-smith/go-bip32 v1.0.0 // indirect
	github.com/tyler-smith/go-bip39 v1.1.0 // indirect
	github.com/zondax/hid v0.9.0 // indirect
	go.etcd.io/bbolt v1.3.6 // indirect
	go.mongodb.org/mongo-driver v1.8.0 // indirect
	golang.org/x/crypto v0.0.0-20211202192323-5770296d904e // indirect
	golang.org/x/net v0.0.0-20220607020251-c690dde0001d // indirect
	golang.org/x/sys v0.0.0-20220520151302-bc2c85ada10a // indirect
	golang.org/x/term v0.0.0-20210927222741-03fcf44c2211 // indirect
	golang.org/x/text v0.3.7 // indirect
	google.golang.org/genproto v0.0.0-20220317150908-0efb43f6373e // indirect
	gopkg.in/ini.v1 v1.66.2 // indirect
	gopkg.in/yaml.v2 v2.4.0 // indirect
	gopkg.in/yaml.v3 v3.0.1 // indirect
)
