package main

// C08, Minter side: the full loop hub -> connectors (this package's relayBatches / relayValsets /
// relayMinterEvents, one instance per validator) -> multisig on a scripted Minter chain -> events -> hub.

import (
	gocontext "context"
	"encoding/hex"
	"fmt"
	"math/big"
	"net"
	"net/http/httptest"
	"os"
	"path/filepath"
	"sort"
	"strconv"
	"strings"
	"testing"

	sdk "github.com/cosmos/cosmos-sdk/types"
	ethcrypto "github.com/ethereum/go-ethereum/crypto"
	"github.com/tendermint/tendermint/libs/log"
	"google.golang.org/grpc"
	"google.golang.org/grpc/test/bufconn"
	"pgregory.net/rapid"

	"github.com/MinterTeam/mhub2/minter-connector/config"
	mctx "github.com/MinterTeam/mhub2/minter-connector/context"
	"github.com/MinterTeam/mhub2/minter-connector/cosmos"
	"github.com/MinterTeam/mhub2/minter-connector/minter"
	mtypes "github.com/MinterTeam/mhub2/module/x/mhub2/types"
	"github.com/MinterTeam/minter-go-sdk/v2/api/http_client"
	"github.com/MinterTeam/minter-go-sdk/v2/transaction"
	"github.com/MinterTeam/minter-go-sdk/v2/wallet"

	"verifharness/connkit"
	"verifharness/pbt"
	"verifharness/sim"
)

type LoopOp struct {
	Kind string `json:"kind"` // deposit | send | reqbatch | block | conn | round | power | unbond | rebond | mempty
	V    int    `json:"v,omitempty"`
	U    int    `json:"u,omitempty"`
	Amt  int64  `json:"amt,omitempty"`
	Fee  int64  `json:"fee,omitempty"`
	Pow  int64  `json:"pow,omitempty"`
	N    int    `json:"n,omitempty"`
}

type LoopCase struct {
	Powers []int64  `json:"powers"`
	Ops    []LoopOp `json:"ops"`
	// Prefund: hub users own vouchers from the start, so transfers and batches can exist before any Minter event was observed
	Prefund bool `json:"prefund,omitempty"`
	// ShortTimeout: TargetEthTxTimeout = 60 s (12 Minter blocks) instead of a day: batch timeout heights get passed
	// (they mean nothing on Minter, whose multisig knows no timeout and whose batches the hub never withdraws)
	ShortTimeout bool `json:"short_timeout,omitempty"`
	// Window: SignedSignerSetTxsWindow (0 = the default 10000): with a short one, signer sets older than the last executed
	// one are pruned within a history; sets still waiting for their execution have to stay
	Window uint64 `json:"ss_window,omitempty"`
}

func genLoopCase(t *rapid.T) interface{} {
	c := &LoopCase{}
	n := rapid.IntRange(1, 4).Draw(t, "nvals")
	for i := 0; i < n; i++ {
		c.Powers = append(c.Powers, rapid.SampledFrom([]int64{1, 1, 2, 3, 10, 50, 100, 100, 1000}).Draw(t, "power"))
	}
	c.Prefund = rapid.IntRange(0, 3).Draw(t, "prefund") == 0
	c.ShortTimeout = rapid.IntRange(0, 2).Draw(t, "shorttimeout") == 0
	c.Window = rapid.SampledFrom([]uint64{0, 0, 1, 2, 4}).Draw(t, "sswindow")
	if c.Prefund {
		// transfers and a batch before anything was observed on Minter
		c.Ops = append(c.Ops, LoopOp{Kind: "send", U: 0, Amt: 100, Fee: 1}, LoopOp{Kind: "reqbatch"}, LoopOp{Kind: "block"}, LoopOp{Kind: "block"})
	}
	// prelude: a deposit gives the hub users funds and an observed Minter height, everyone relays it
	c.Ops = append(c.Ops, LoopOp{Kind: "deposit", U: 0, Amt: 1000000}, LoopOp{Kind: "deposit", U: 1, Amt: 500000}, LoopOp{Kind: "round"}, LoopOp{Kind: "round"})
	k := rapid.IntRange(4, 30).Draw(t, "nops")
	for i := 0; i < k; i++ {
		x := rapid.IntRange(0, 99).Draw(t, "kind")
		switch {
		case x < 22:
			c.Ops = append(c.Ops, LoopOp{Kind: "send", U: rapid.IntRange(0, 1).Draw(t, "u"), Amt: rapid.Int64Range(1, 5000).Draw(t, "amt"), Fee: rapid.Int64Range(0, 50).Draw(t, "fee"), N: rapid.IntRange(0, 2).Draw(t, "rcpt")})
		case x < 32:
			c.Ops = append(c.Ops, LoopOp{Kind: "reqbatch"})
		case x < 44:
			c.Ops = append(c.Ops, LoopOp{Kind: "block"})
		case x < 58:
			c.Ops = append(c.Ops, LoopOp{Kind: "conn", V: rapid.IntRange(0, n-1).Draw(t, "v")})
		case x < 76:
			c.Ops = append(c.Ops, LoopOp{Kind: "round"})
		case x < 82:
			c.Ops = append(c.Ops, LoopOp{Kind: "power", V: rapid.IntRange(0, n-1).Draw(t, "v"), Pow: rapid.SampledFrom([]int64{1, 2, 50, 100, 200, 1000}).Draw(t, "pow")})
		case x < 86:
			c.Ops = append(c.Ops, LoopOp{Kind: "unbond", V: rapid.IntRange(0, n-1).Draw(t, "v")})
		case x < 89:
			c.Ops = append(c.Ops, LoopOp{Kind: "rebond", V: rapid.IntRange(0, n-1).Draw(t, "v")})
		case x < 94:
			c.Ops = append(c.Ops, LoopOp{Kind: "deposit", U: rapid.IntRange(0, 1).Draw(t, "u"), Amt: rapid.Int64Range(1, 100000).Draw(t, "amt")})
		default:
			c.Ops = append(c.Ops, LoopOp{Kind: "mempty", N: rapid.SampledFrom([]int{1, 2, 3, 15, 40}).Draw(t, "n")})
		}
		if c.Window > 0 && rapid.IntRange(0, 9).Draw(t, "lag") == 0 {
			// two signer-set updates queue up while nobody relays, for longer than the window
			v := rapid.IntRange(0, n-1).Draw(t, "lv")
			c.Ops = append(c.Ops, LoopOp{Kind: "power", V: v, Pow: 700}, LoopOp{Kind: "block"}, LoopOp{Kind: "power", V: v, Pow: 3}, LoopOp{Kind: "block"})
			for j := uint64(0); j < c.Window+2; j++ {
				c.Ops = append(c.Ops, LoopOp{Kind: "block"})
			}
		}
	}
	return c
}

// weights the connector derives from a signer set: power*1000/total, truncated
func refWeights(ss *mtypes.SignerSetTx) (addrs []string, ws []uint64) {
	tot := new(big.Int)
	for _, s := range ss.Signers {
		tot.Add(tot, new(big.Int).SetUint64(s.Power))
	}
	for _, s := range ss.Signers {
		w := new(big.Int).Mul(new(big.Int).SetUint64(s.Power), big.NewInt(1000))
		if tot.Sign() > 0 {
			w.Quo(w, tot)
		}
		addrs = append(addrs, "Mx"+strings.ToLower(s.ExternalAddress[2:]))
		ws = append(ws, w.Uint64())
	}
	return
}

type submission struct {
	nonce    uint64
	kind     string
	accepted bool
	reason   string
}

func runLoopCase(ci interface{}, rec *pbt.Rec) *pbt.Failure {
	c := ci.(*LoopCase)
	nv := len(c.Powers)
	cfgH := sim.Config{
		Tokens: []sim.TokenCfg{{Id: 1, Denom: "hub", Chain: "minter", ExtId: "1", Decimals: 18, Commission: "0.01"}, {Id: 2, Denom: "hub", Chain: "ethereum", ExtId: "0xA091Bb826756eA25114c512B916754b3fBCb4f63", Decimals: 18, Commission: "0.01"}},
		Prices: []sim.PriceCfg{{Name: "hub", Value: "1"}, {Name: "eth", Value: "1"}, {Name: "bnb", Value: "1"}},
	}
	for _, p := range c.Powers {
		cfgH.Vals = append(cfgH.Vals, sim.ValCfg{Power: p, Bonded: true, Keys: []string{"minter", "ethereum", "bsc"}})
	}
	if c.ShortTimeout {
		cfgH.TargetEthTxTimeout = 60000
	}
	cfgH.SignerSetWindow = c.Window
	h := sim.NewHub(cfgH)
	if c.Prefund {
		for u := 0; u < 2; u++ {
			h.Fund(sim.UserAddr(u), "hub", big.NewInt(1000000000000))
		}
	}
	height, now := int64(1), int64(1600000005)
	if err := h.Begin(height, now); err != nil {
		return nil
	}

	// --- the hub's query service over an in-memory gRPC connection
	lis := bufconn.Listen(1 << 20)
	gs := grpc.NewServer(grpc.UnaryInterceptor(func(_ gocontext.Context, req interface{}, _ *grpc.UnaryServerInfo, handler grpc.UnaryHandler) (interface{}, error) {
		return handler(sdk.WrapSDKContext(h.Ctx()), req)
	}))
	mtypes.RegisterQueryServer(gs, h.K)
	go gs.Serve(lis)
	defer gs.Stop()
	conn, err := grpc.DialContext(gocontext.Background(), "bufnet", grpc.WithContextDialer(func(gocontext.Context, string) (net.Conn, error) { return lis.Dial() }), grpc.WithInsecure())
	if err != nil {
		return pbt.Failf("harness", "dial: %v", err)
	}
	defer conn.Close()

	// --- the scripted Minter chain with the bridge's multisig account
	first := h.SignerSets("minter")
	if len(first) == 0 {
		return pbt.Failf("harness", "no signer set for minter after the first BeginBlock")
	}
	a0, w0 := refWeights(first[0])
	nd := &connkit.Node{Msig: &connkit.Msig{Addresses: a0, Weights: w0, Threshold: 667}}
	var subs []submission
	var judgeFail *pbt.Failure
	valsetNonceOnChain := uint64(0)
	paid := map[string]*big.Int{}     // Minter recipient -> received
	expected := map[string]*big.Int{} // per executed hub batch: recipient -> amount
	executedSeq := map[uint64]bool{}
	bridgeEvents := uint64(0)
	var underConfirmed, exactThreshold, batchesExecuted, valsetsExecuted, refused int

	memberWeight := func(addr string) uint64 {
		for i, a := range nd.Msig.Addresses {
			if strings.EqualFold(a, addr) {
				return nd.Msig.Weights[i]
			}
		}
		return 0
	}
	nd.OnSend = func(txs string) (uint64, string) {
		signed, err := transaction.Decode(txs)
		if err != nil {
			return 1, "cannot decode: " + err.Error()
		}
		tx := signed.GetTransaction()
		sender, _ := signed.SenderAddress()
		if !strings.EqualFold(sender, connkit.Multisig) || tx.SignatureType != transaction.SignatureTypeMulti {
			return 1, "not a transaction of the bridge multisig"
		}
		signers, err := signed.Signers()
		if err != nil {
			return 1, "bad signatures: " + err.Error()
		}
		seen := map[string]bool{}
		sum := uint64(0)
		for _, s := range signers {
			ls := strings.ToLower(s)
			if seen[ls] {
				return 1, "duplicate signer" // Minter: "Duplicated signatures"
			}
			seen[ls] = true
			sum += memberWeight(s)
		}
		inOrder := tx.Nonce == nd.Msig.TxCount+1
		enough := sum >= nd.Msig.Threshold
		accepted := inOrder && enough
		sub := submission{nonce: tx.Nonce, accepted: accepted}
		// which hub outgoing transaction is this?
		ctx := h.Ctx()
		var batch *mtypes.BatchTx
		var sset *mtypes.SignerSetTx
		for _, b := range h.Batches("minter") {
			if b.Sequence == tx.Nonce {
				batch = b
			}
		}
		for _, s := range h.SignerSets("minter") {
			if s.Sequence == tx.Nonce {
				sset = s
			}
		}
		var confirmedBy []string // external addresses recorded by the hub for that outgoing tx
		same := false
		desc := ""
		switch d := signed.Data().(type) {
		case *transaction.MultisendData:
			sub.kind = "batch"
			if batch != nil {
				desc = fmt.Sprintf("batch %d (sequence %d)", batch.BatchNonce, batch.Sequence)
				same = len(d.List) == len(batch.Transactions) && len(tx.Payload) == 0
				for i := 0; same && i < len(d.List); i++ {
					bt := batch.Transactions[i]
					to := d.List[i].To
					same = strings.EqualFold(hex.EncodeToString(to[:]), bt.ExternalRecipient[2:]) && fmt.Sprint(uint64(d.List[i].Coin)) == bt.Token.ExternalTokenId && d.List[i].Value.Cmp(bt.Token.Amount.BigInt()) == 0
				}
				r, err := h.K.BatchTxConfirmations(sdk.WrapSDKContext(ctx), &mtypes.BatchTxConfirmationsRequest{BatchNonce: batch.BatchNonce, ExternalTokenId: batch.ExternalTokenId, ChainId: "minter"})
				if err == nil {
					for _, s := range r.Signatures {
						confirmedBy = append(confirmedBy, s.ExternalSigner)
					}
				}
			}
		case *transaction.EditMultisigData:
			sub.kind = "valset"
			if sset != nil {
				desc = fmt.Sprintf("signer set %d (sequence %d)", sset.Nonce, sset.Sequence)
				ra, rw := refWeights(sset)
				same = len(d.Addresses) == len(ra) && d.Threshold == 667 && string(tx.Payload) == strconv.Itoa(int(sset.Nonce))
				for i := 0; same && i < len(ra); i++ {
					same = strings.EqualFold("Mx"+hex.EncodeToString(d.Addresses[i][:]), ra[i]) && uint64(d.Weights[i]) == rw[i]
				}
				r, err := h.K.SignerSetTxConfirmations(sdk.WrapSDKContext(ctx), &mtypes.SignerSetTxConfirmationsRequest{SignerSetNonce: sset.Nonce, ChainId: "minter"})
				if err == nil {
					for _, s := range r.Signatures {
						confirmedBy = append(confirmedBy, s.ExternalSigner)
					}
				}
			}
		default:
			return 1, "unexpected transaction type"
		}
		fail := func(key, format string, a ...interface{}) {
			if judgeFail == nil {
				judgeFail = pbt.Failf(key, format, a...)
			}
		}
		known := (batch != nil && sub.kind == "batch") || (sset != nil && sub.kind == "valset")
		if known {
			cw := uint64(0)
			for _, a := range confirmedBy {
				cw += memberWeight("Mx" + a[2:])
				if memberWeight("Mx"+a[2:]) > 0 && !seen["mx"+strings.ToLower(a[2:])] && same {
					fail("confirmation-not-valid-for-relayed-tx", "%s: the hub holds a confirmation of %s, but no signature on the transaction the relayer assembled from the hub's data recovers to that address (signers: %v)", desc, a, signers)
				}
			}
			if cw >= nd.Msig.Threshold && inOrder && !accepted && same {
				fail("multisig-refuses-confirmed-tx", "%s: members holding %d of 1000 (threshold %d) confirmed it on the hub and it is next in order, the multisig refuses it: valid signer weight %d", desc, cw, nd.Msig.Threshold, sum)
			}
			if accepted && cw < nd.Msig.Threshold {
				fail("multisig-accepts-underconfirmed", "%s accepted with signer weight %d although the hub records confirmations of only %d", desc, sum, cw)
			}
			if accepted && !same {
				fail("multisig-executes-something-else", "the multisig executed a %s with nonce %d whose content differs from the hub's %s", sub.kind, tx.Nonce, desc)
			}
			if cw < nd.Msig.Threshold {
				underConfirmed++
			}
			if cw >= nd.Msig.Threshold && cw < nd.Msig.Threshold+40 {
				exactThreshold++
			}
		} else if accepted {
			fail("multisig-executes-unknown-tx", "the multisig executed a %s with nonce %d that matches no outgoing transaction of the hub", sub.kind, tx.Nonce)
		}
		if !accepted {
			refused++
			sub.reason = fmt.Sprintf("in order=%v weight=%d", inOrder, sum)
			subs = append(subs, sub)
			return 107, "not enough multisig votes or wrong nonce"
		}
		subs = append(subs, sub)
		// execute: one new block holding the transaction
		nd.Msig.TxCount++
		executedSeq[tx.Nonce] = true
		bridgeEvents++
		var mtx connkit.MTx
		switch d := signed.Data().(type) {
		case *transaction.MultisendData:
			mtx = connkit.MTx{Kind: "batch"}
			for _, it := range d.List {
				to := "Mx" + hex.EncodeToString(it.To[:])
				mtx.Items = append(mtx.Items, connkit.MItem{To: to, Coin: int(it.Coin), Value: it.Value.String()})
				if paid[to] == nil {
					paid[to] = new(big.Int)
				}
				paid[to].Add(paid[to], it.Value)
			}
			if batch != nil {
				for _, bt := range batch.Transactions {
					to := "Mx" + strings.ToLower(bt.ExternalRecipient[2:])
					if expected[to] == nil {
						expected[to] = new(big.Int)
					}
					expected[to].Add(expected[to], bt.Token.Amount.BigInt())
				}
			}
			batchesExecuted++
		case *transaction.EditMultisigData:
			mtx = connkit.MTx{Kind: "valset", Payload: string(tx.Payload)}
			nd.Msig.Addresses, nd.Msig.Weights = nil, nil
			for i := range d.Addresses {
				a := "Mx" + hex.EncodeToString(d.Addresses[i][:])
				nd.Msig.Addresses = append(nd.Msig.Addresses, a)
				nd.Msig.Weights = append(nd.Msig.Weights, uint64(d.Weights[i]))
				mtx.Members = append(mtx.Members, connkit.MMember{Addr: a, Weight: uint64(d.Weights[i])})
			}
			nd.Msig.Threshold = uint64(d.Threshold)
			v, _ := strconv.Atoi(string(tx.Payload))
			valsetNonceOnChain = uint64(v)
			valsetsExecuted++
		}
		nd.Blocks = append(nd.Blocks, connkit.MBlock{Txs: []connkit.MTx{mtx}})
		nd.Latest = uint64(len(nd.Blocks))
		return 0, ""
	}
	srv := httptest.NewServer(nd)
	defer srv.Close()

	// --- one connector per validator
	dir, err := os.MkdirTemp("", "c08minter")
	if err != nil {
		return pbt.Failf("harness", "tmp: %v", err)
	}
	defer os.RemoveAll(dir)
	type connector struct {
		ctx     mctx.Context
		dr      *drain
		started bool
	}
	conns := make([]*connector, nv)
	for vi := 0; vi < nv; vi++ {
		client, err := http_client.New(srv.URL)
		if err != nil {
			return pbt.Failf("harness", "client: %v", err)
		}
		key := sim.EthKey(vi, "minter", 0)
		dr := newDrain()
		defer dr.close()
		conns[vi] = &connector{dr: dr, ctx: mctx.Context{MinterMultisigAddr: cfg.Minter.MultisigAddr, CosmosConn: conn, MinterClient: client, OrcAddress: sim.OrchAddr(vi),
			TxCommitter: dr.srv, Logger: log.NewNopLogger(),
			MinterWallet: &wallet.Wallet{PrivateKey: hex.EncodeToString(ethcrypto.FromECDSA(key)), Address: "0x" + strings.ToLower(sim.EthAddr(vi, "minter", 0).Hex()[2:])}}}
	}
	defaults := config.MinterConfig{StartBlock: 0, StartEventNonce: 1, StartBatchNonce: 1, StartValsetNonce: 0}
	var rejectedTxs, activity int
	flush := func(vi int) {
		for _, msgs := range conns[vi].dr.take() {
			activity++
			rs := h.DeliverTx(msgs)
			for i, r := range rs {
				if os.Getenv("VERIF_TRACE") != "" {
					fmt.Printf("TRACE validator %d tx msg %d/%d %T err=%v\n", vi, i+1, len(msgs), msgs[i], r.Err)
				}
			}
			for _, r := range rs {
				if r.Err != nil {
					rejectedTxs++
					break
				}
			}
		}
	}
	runConn := func(vi int) *pbt.Failure {
		cn := conns[vi]
		if !h.Staking.Vals[vi].Bonded {
			cn.started = false // a validator outside the set stops its connector; it resynchronises when it is back
			return nil
		}
		if !cn.started {
			cn.ctx.LoadStatus(filepath.Join(dir, fmt.Sprintf("status-%d.json", vi)), defaults)
			cn.ctx = minter.GetLatestMinterBlockAndNonce(cn.ctx, cosmos.GetLastMinterNonce(cn.ctx.OrcAddress.String(), conn))
			cn.started = true
		}
		// one iteration of main()'s loop
		cn.ctx = relayMinterEvents(cn.ctx)
		flush(vi)
		relayBatches(cn.ctx)
		flush(vi)
		relayValsets(cn.ctx)
		flush(vi)
		f := judgeFail
		judgeFail = nil
		return f
	}
	endBlock := func() bool {
		if err := h.End(); err != nil {
			return false
		}
		height++
		now += 5
		return h.Begin(height, now) == nil
	}
	addMinterBlock := func(txs ...connkit.MTx) {
		nd.Mu.Lock()
		nd.Blocks = append(nd.Blocks, connkit.MBlock{Txs: txs})
		nd.Latest = uint64(len(nd.Blocks))
		nd.Mu.Unlock()
	}
	// every validator's connector is running from the bridge's first Minter block on (a connector started later,
	// with nothing acknowledged by the hub, joins at the chain's current height and leaves the older events to the others)
	for vi := 0; vi < nv; vi++ {
		cn := conns[vi]
		cn.ctx.LoadStatus(filepath.Join(dir, fmt.Sprintf("status-%d.json", vi)), defaults)
		cn.ctx = minter.GetLatestMinterBlockAndNonce(cn.ctx, cosmos.GetLastMinterNonce(cn.ctx.OrcAddress.String(), conn))
		cn.started = true
	}
	hubRcpt := []string{sim.UserAddr(0).String(), sim.UserAddr(1).String()}
	deposited := map[int]*big.Int{0: new(big.Int), 1: new(big.Int)}
	var rounds, staking int

	for si, op := range c.Ops {
		switch op.Kind {
		case "deposit":
			v := new(big.Int).Mul(big.NewInt(op.Amt), big.NewInt(1000000000000))
			addMinterBlock(connkit.MTx{Kind: "deposit", From: 1 + op.U%2, Value: v.String(), Coin: 1,
				Payload: fmt.Sprintf(`{"type":"send_to_hub","recipient":"%s","fee":"0"}`, hubRcpt[op.U%2])})
			deposited[op.U%2].Add(deposited[op.U%2], v)
			bridgeEvents++
		case "mempty":
			for k := 0; k < op.N; k++ {
				addMinterBlock()
			}
		case "send":
			rc := fmt.Sprintf("0x%040x", 0xaa00+op.N)
			h.Deliver(mtypes.NewMsgSendToExternal("minter", sim.UserAddr(op.U%2), rc, sdk.NewInt64Coin("hub", op.Amt*1000000), sdk.NewInt64Coin("hub", op.Fee*1000)))
		case "reqbatch":
			h.Deliver(&mtypes.MsgRequestBatchTx{Denom: "hub", Signer: sim.UserAddr(0).String(), ChainId: "minter"})
		case "block":
			if !endBlock() {
				return nil
			}
		case "conn":
			if f := runConn(op.V % nv); f != nil {
				f.Msg = fmt.Sprintf("step %d: %s", si, f.Msg)
				return f
			}
		case "round":
			rounds++
			for vi := 0; vi < nv; vi++ {
				if f := runConn(vi); f != nil {
					f.Msg = fmt.Sprintf("step %d: %s", si, f.Msg)
					return f
				}
			}
			if !endBlock() {
				return nil
			}
		case "power":
			v, p := op.V%nv, op.Pow
			h.QueueStaking(func(s *sim.SimStaking) { s.Vals[v].Power = p })
			staking++
		case "unbond":
			v := op.V % nv
			h.QueueStaking(func(s *sim.SimStaking) {
				n := 0
				for _, x := range s.Vals {
					if x.Bonded {
						n++
					}
				}
				if n > 1 {
					s.Vals[v].Bonded, s.Vals[v].Unbonding = false, true
				}
			})
			staking++
		case "rebond":
			v := op.V % nv
			h.QueueStaking(func(s *sim.SimStaking) { s.Vals[v].Bonded, s.Vals[v].Unbonding = true, false })
			staking++
		}
		// what the multisig paid is what the hub's executed batches scheduled
		for to, x := range paid {
			if expected[to] == nil || expected[to].Cmp(x) != 0 {
				return pbt.Failf("payout-differs", "step %d: Minter account %s received %s from the multisig, the hub's executed batches scheduled %v", si, to, x, expected[to])
			}
		}
	}

	// settle: whole rounds until two in a row in which no connector had anything to say and nothing reached the chain
	quiet := 0
	for k := 0; k < 80 && quiet < 2; k++ {
		a0, s0 := activity, batchesExecuted+valsetsExecuted // (a submission the multisig keeps refusing is repeated every round: that is quiet too)
		for vi := 0; vi < nv; vi++ {
			if f := runConn(vi); f != nil {
				f.Msg = "settling: " + f.Msg
				return f
			}
		}
		if !endBlock() {
			return nil
		}
		if activity == a0 && batchesExecuted+valsetsExecuted == s0 {
			quiet++
		} else {
			quiet = 0
		}
	}
	if quiet < 2 {
		rec.Label("no-quiescence-in-80-rounds")
		return nil
	}
	ctx := h.Ctx()
	if got := h.K.GetLastObservedEventNonce(ctx, "minter"); got != bridgeEvents {
		return pbt.Failf("event-nonce-out-of-step", "after the settling rounds the hub observed Minter event nonce %d, the chain has had %d bridge events (submissions: %+v)", got, bridgeEvents, subs)
	}
	if obs := h.K.GetLastObservedSignerSetTx(ctx, "minter"); valsetNonceOnChain > 0 && (obs == nil || obs.Nonce != valsetNonceOnChain) {
		return pbt.Failf("observed-set-differs-from-multisig", "the multisig holds signer set %d, the hub's last observed one is %v", valsetNonceOnChain, obs)
	}
	for _, b := range h.Batches("minter") {
		if executedSeq[b.Sequence] {
			return pbt.Failf("executed-batch-still-pending", "batch %d (sequence %d) was executed by the multisig and observed, the hub still holds it", b.BatchNonce, b.Sequence)
		}
	}
	for u := 0; u < 2; u++ {
		// deposits credited exactly (sends take their part back out; only check users that never sent)
		_ = u
	}
	var keys []string
	for k := range paid {
		keys = append(keys, k)
	}
	sort.Strings(keys)
	rec.NonTrivial = batchesExecuted >= 1 && valsetsExecuted >= 1
	rec.Label(fmt.Sprintf("batches-executed=%d", minInt(batchesExecuted, 4)))
	rec.Label(fmt.Sprintf("valsets-executed=%d", minInt(valsetsExecuted, 4)))
	if refused > 0 {
		rec.Label("submission-refused")
	}
	if underConfirmed > 0 {
		rec.Label("submitted-under-threshold")
	}
	if exactThreshold > 0 {
		rec.Label("within-40-of-threshold")
	}
	if staking > 0 && valsetsExecuted >= 2 {
		rec.Label("set-rotated-on-chain")
	}
	if rejectedTxs > 0 {
		rec.Label("hub-refused-a-connector-tx")
	}
	if pend := len(h.Batches("minter")); pend > 0 {
		rec.Label("batches-left-pending")
	}
	// at rest, the next transaction in order must not be sufficiently confirmed and still unexecuted
	next := nd.Msig.TxCount + 1
	cw := uint64(0)
	for _, b := range h.Batches("minter") {
		if b.Sequence == next {
			if r, err := h.K.BatchTxConfirmations(sdk.WrapSDKContext(ctx), &mtypes.BatchTxConfirmationsRequest{BatchNonce: b.BatchNonce, ExternalTokenId: b.ExternalTokenId, ChainId: "minter"}); err == nil {
				for _, sg := range r.Signatures {
					cw += memberWeight("Mx" + sg.ExternalSigner[2:])
				}
			}
		}
	}
	for _, ss := range h.SignerSets("minter") {
		if ss.Sequence == next {
			if r, err := h.K.SignerSetTxConfirmations(sdk.WrapSDKContext(ctx), &mtypes.SignerSetTxConfirmationsRequest{SignerSetNonce: ss.Nonce, ChainId: "minter"}); err == nil {
				for _, sg := range r.Signatures {
					cw += memberWeight("Mx" + sg.ExternalSigner[2:])
				}
			}
		}
	}
	// the multisig takes transactions strictly in sequence order: whatever the hub still holds for later must be preceded by
	// the next one in order - a transaction the hub dropped before its execution blocks everything behind it for good
	lowest, pending := uint64(0), 0
	for _, b := range h.Batches("minter") {
		if b.Sequence >= next {
			pending++
			if lowest == 0 || b.Sequence < lowest {
				lowest = b.Sequence
			}
		}
	}
	for _, ss := range h.SignerSets("minter") {
		if ss.Sequence >= next {
			pending++
			if lowest == 0 || ss.Sequence < lowest {
				lowest = ss.Sequence
			}
		}
	}
	if pending > 0 && lowest != next {
		return pbt.Failf("sequence-gap-blocks-multisig", "the multisig has executed %d transactions and takes sequence %d next; the hub holds %d later transactions, the lowest with sequence %d, and none with sequence %d: nothing of them can ever be executed (submissions: %+v)", nd.Msig.TxCount, next, pending, lowest, next, tailSubs(subs))
	}
	if cw >= nd.Msig.Threshold {
		// every bonded validator's connector has run at least two full rounds since anything changed, each of them acting as
		// relayer: whatever they submit for this transaction, the multisig does not take it
		return pbt.Failf("confirmed-tx-not-executed", "the hub's outgoing transaction with sequence %d is next in order for the multisig and confirmed by members holding %d of 1000 (threshold %d), yet after two further rounds of every connector it is still not executed (submissions: %+v)", next, cw, nd.Msig.Threshold, tailSubs(subs))
	}
	return nil
}

func tailSubs(s []submission) []submission {
	if len(s) > 6 {
		return s[len(s)-6:]
	}
	return s
}

func TestC08Minter(t *testing.T) {
	(&pbt.Check{
		ID:          "C08",
		Part:        "minter",
		Rule:        "full Minter loop with the connector's own package main (compiled in place through go test -overlay): 1..4 validators each run the connector's loop body (relayMinterEvents, relayBatches, relayValsets) against the hub's real query service (in-memory gRPC) and a scripted Minter chain whose multisig account follows Minter's rule (distinct member signatures, weight sum >= threshold, account nonce in order) and is the judge; histories of deposits, sends, batch requests, stake changes, connector runs of single validators or all, hub and Minter blocks; a submission the hub records as confirmed by >= threshold weight and next in order must be accepted, every hub-recorded confirmation must be a valid signature over the transaction assembled from the hub's data, nothing under-confirmed or differing from the hub's batch / signer set may execute, payouts equal the batches' amounts, and after settling rounds hub and chain agree on event nonce, signer set and executed batches; non-trivial = >=1 batch and >=1 signer-set update executed on the chain; distinct = distinct case JSON",
		Gen:         genLoopCase,
		New:         func() interface{} { return &LoopCase{} },
		Run:         runLoopCase,
		Assumptions: []string{"Minter's multisig verification is the model in the scripted node (weights, threshold, nonce, duplicate signers), as documented for Minter's multisig accounts", "a validator outside the bonded set does not run its connector and resynchronises (start-up sequence of main()) when it is back"},
	}).Main(t)
}
