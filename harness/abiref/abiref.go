// Package abiref is a from-scratch implementation of Solidity's abi.encode for
// the value shapes the three Hub2 checkpoints use (static words, dynamic arrays
// of static words, bytes) and of Keccak-256 via x/crypto/sha3. It shares nothing
// with go-ethereum's accounts/abi, which the code under test uses.
package abiref

import (
	"math/big"

	"golang.org/x/crypto/sha3"
)

type Word [32]byte

// WordArray is a dynamic array of static 32-byte elements (address[], uint256[]).
type WordArray []Word

// Bytes is Solidity's dynamic `bytes`.
type Bytes []byte

func U256(x *big.Int) Word {
	var w Word
	if x.Sign() < 0 || x.BitLen() > 256 {
		panic("abiref: not a uint256")
	}
	b := x.Bytes()
	copy(w[32-len(b):], b)
	return w
}

func U64(x uint64) Word { return U256(new(big.Int).SetUint64(x)) }

func Addr(a [20]byte) Word {
	var w Word
	copy(w[12:], a[:])
	return w
}

// LeftAligned is a bytesN value (bytes32 from a shorter byte string).
func LeftAligned(b []byte) Word {
	var w Word
	if len(b) > 32 {
		panic("abiref: more than 32 bytes")
	}
	copy(w[:], b)
	return w
}

// Encode is abi.encode(vals...) for Word, WordArray and Bytes values.
func Encode(vals ...interface{}) []byte {
	headLen := 32 * len(vals)
	head := make([]byte, 0, headLen)
	var tail []byte
	for _, v := range vals {
		switch x := v.(type) {
		case Word:
			head = append(head, x[:]...)
		case WordArray:
			off := U64(uint64(headLen + len(tail)))
			head = append(head, off[:]...)
			l := U64(uint64(len(x)))
			tail = append(tail, l[:]...)
			for _, e := range x {
				tail = append(tail, e[:]...)
			}
		case Bytes:
			off := U64(uint64(headLen + len(tail)))
			head = append(head, off[:]...)
			l := U64(uint64(len(x)))
			tail = append(tail, l[:]...)
			tail = append(tail, x...)
			if pad := (32 - len(x)%32) % 32; pad > 0 {
				tail = append(tail, make([]byte, pad)...)
			}
		default:
			panic("abiref: unsupported value")
		}
	}
	return append(head, tail...)
}

func Keccak(b []byte) [32]byte {
	h := sha3.NewLegacyKeccak256()
	h.Write(b)
	var out [32]byte
	copy(out[:], h.Sum(nil))
	return out
}

// SignerSetCheckpoint = keccak(abi.encode(gravityId, "checkpoint", nonce, validators, powers)).
func SignerSetCheckpoint(gravityID []byte, nonce uint64, vals [][20]byte, powers []uint64) [32]byte {
	va, pa := WordArray{}, WordArray{}
	for i := range vals {
		va = append(va, Addr(vals[i]))
		pa = append(pa, U64(powers[i]))
	}
	return Keccak(Encode(LeftAligned(gravityID), LeftAligned([]byte("checkpoint")), U64(nonce), va, pa))
}

// BatchCheckpoint = keccak(abi.encode(gravityId, "transactionBatch", amounts, destinations, fees, nonce, token, timeout)).
func BatchCheckpoint(gravityID []byte, amounts []*big.Int, dests [][20]byte, fees []*big.Int, nonce uint64, token [20]byte, timeout uint64) [32]byte {
	aa, da, fa := WordArray{}, WordArray{}, WordArray{}
	for i := range amounts {
		aa = append(aa, U256(amounts[i]))
		da = append(da, Addr(dests[i]))
		fa = append(fa, U256(fees[i]))
	}
	return Keccak(Encode(LeftAligned(gravityID), LeftAligned([]byte("transactionBatch")), aa, da, fa, U64(nonce), Addr(token), U64(timeout)))
}

// LogicCallCheckpoint = keccak(abi.encode(gravityId, "logicCall", transferAmounts, transferTokens, feeAmounts, feeTokens,
// logicContract, payload, timeout, invalidationId, invalidationNonce)).
func LogicCallCheckpoint(gravityID []byte, tAmt []*big.Int, tTok [][20]byte, fAmt []*big.Int, fTok [][20]byte, logic [20]byte, payload []byte, timeout uint64, scope []byte, invNonce uint64) [32]byte {
	ta, tt, fa, ft := WordArray{}, WordArray{}, WordArray{}, WordArray{}
	for i := range tAmt {
		ta = append(ta, U256(tAmt[i]))
		tt = append(tt, Addr(tTok[i]))
	}
	for i := range fAmt {
		fa = append(fa, U256(fAmt[i]))
		ft = append(ft, Addr(fTok[i]))
	}
	return Keccak(Encode(LeftAligned(gravityID), LeftAligned([]byte("logicCall")), ta, tt, fa, ft, Addr(logic), Bytes(payload), U64(timeout), LeftAligned(scope), U64(invNonce)))
}
