// Package connkit is the scripted Minter node the connector checks talk to: an http.Handler that serves
// /status and /blocks from a list of block descriptions, in the JSON shape of the Minter API v2.
package connkit

import (
	"encoding/base64"
	"encoding/json"
	"fmt"
	"net/http"
	"strconv"
	"strings"
	"sync"
)

const Multisig = "Mx7072558b2b91e62dbed78e9a3453e5c9e01fec5e"
const OtherAddr = "Mx1111111111111111111111111111111111111111"

// MTx describes one transaction of a block.
type MTx struct {
	Kind    string `json:"kind"` // deposit | bad-deposit | send-elsewhere | batch | foreign-multisend | valset | valset-bad | other
	Payload string `json:"payload,omitempty"`
	// optional details (defaults: sender OtherAddr, value 1000 * 10^18, coin 1)
	From  int    `json:"from,omitempty"`  // 0 = OtherAddr, n>0 = Sender(n)
	Value string `json:"value,omitempty"` // deposits: value sent
	Coin  int    `json:"coin,omitempty"`  // deposits / batches: coin id
	// transactions the multisig really sent (loop checks): the items of a multisend, the members of an edit-multisig
	Items   []MItem   `json:"items,omitempty"`
	Members []MMember `json:"members,omitempty"`
	// Failed: the transaction is in the block but failed (code != 0); the node lists it only when asked for failed ones
	Failed bool `json:"failed,omitempty"`
}

type MItem struct {
	To    string `json:"to"` // Mx...
	Coin  int    `json:"coin"`
	Value string `json:"value"`
}

type MMember struct {
	Addr   string `json:"addr"` // Mx...
	Weight uint64 `json:"weight"`
}

// Msig is the state of the bridge's multisig account on the scripted chain.
type Msig struct {
	Addresses []string
	Weights   []uint64
	Threshold uint64
	TxCount   uint64 // transactions sent so far; the next one must carry nonce TxCount+1
}

type MBlock struct {
	Txs []MTx `json:"txs"`
}

// IsEvent: is this a bridge event (what the connector must number)? A failed transaction never is.
func (t MTx) IsEvent() bool {
	return !t.Failed && (t.Kind == "deposit" || t.Kind == "batch" || t.Kind == "valset")
}

// Sender is the n-th Minter account used as a depositor.
func Sender(n int) string {
	if n <= 0 {
		return OtherAddr
	}
	return fmt.Sprintf("Mx%040x", 0xabc000+n)
}

func (t MTx) FromAddr() string { return Sender(t.From) }

func (t MTx) ValueStr() string {
	if t.Value == "" {
		return "1000000000000000000000"
	}
	return t.Value
}

func (t MTx) CoinID() int {
	if t.Coin == 0 {
		return 1
	}
	return t.Coin
}

func TxHash(h uint64, i int) string { return fmt.Sprintf("Mt%062x%02x", h, i) }

type Node struct {
	Mu     sync.Mutex
	Blocks []MBlock // heights 1..len
	Latest uint64
	// optional: the multisig account (served by /address/<multisig>) and the judge of submitted transactions
	// (called with Mu held; returns the code and log of the send_transaction response)
	Msig   *Msig
	OnSend func(tx string) (code uint64, log string)
	// FailBlocks: the next n /blocks requests are answered with HTTP 500 (a transient node error)
	FailBlocks int
}

func (n *Node) SetLatest(h uint64) {
	n.Mu.Lock()
	n.Latest = h
	n.Mu.Unlock()
}

func (n *Node) txJSON(h uint64, i int, t MTx) map[string]interface{} {
	tx := map[string]interface{}{
		"hash": TxHash(h, i), "height": fmt.Sprint(h), "index": fmt.Sprint(i), "from": t.FromAddr(), "nonce": "1", "gas_price": "1",
		"gas_coin": map[string]interface{}{"id": "0", "symbol": "BIP"}, "gas": "10", "type_hex": "0x01", "code": "0", "log": "", "raw_tx": "", "tags": map[string]string{},
	}
	coin := map[string]interface{}{"id": fmt.Sprint(t.CoinID()), "symbol": "HUB"}
	send := func(to string) map[string]interface{} {
		return map[string]interface{}{"@type": "type.googleapis.com/api_pb.SendData", "coin": coin, "to": to, "value": t.ValueStr()}
	}
	switch t.Kind {
	case "deposit", "bad-deposit":
		tx["type"] = "1"
		tx["data"] = send(Multisig)
		tx["payload"] = base64.StdEncoding.EncodeToString([]byte(t.Payload))
	case "send-elsewhere":
		tx["type"] = "1"
		tx["data"] = send(OtherAddr)
		tx["payload"] = base64.StdEncoding.EncodeToString([]byte(t.Payload))
	case "batch", "foreign-multisend":
		tx["type"] = "13"
		if t.Kind == "batch" {
			tx["from"] = Multisig
		}
		list := []interface{}{map[string]interface{}{"coin": coin, "to": OtherAddr, "value": "5"}}
		if len(t.Items) > 0 {
			list = nil
			for _, it := range t.Items {
				list = append(list, map[string]interface{}{"coin": map[string]interface{}{"id": fmt.Sprint(it.Coin), "symbol": "HUB"}, "to": it.To, "value": it.Value})
			}
		}
		tx["data"] = map[string]interface{}{"@type": "type.googleapis.com/api_pb.MultiSendData", "list": list}
	case "valset", "valset-bad":
		tx["type"] = "18"
		tx["from"] = Multisig
		weights, addrs := []string{"500", "500"}, []string{OtherAddr, Multisig}
		if len(t.Members) > 0 {
			weights, addrs = nil, nil
			for _, m := range t.Members {
				weights, addrs = append(weights, fmt.Sprint(m.Weight)), append(addrs, m.Addr)
			}
		}
		tx["data"] = map[string]interface{}{"@type": "type.googleapis.com/api_pb.EditMultisigData", "threshold": "667", "weights": weights, "addresses": addrs}
		tx["payload"] = base64.StdEncoding.EncodeToString([]byte(t.Payload))
	default:
		tx["type"] = "2"
		tx["data"] = map[string]interface{}{"@type": "type.googleapis.com/api_pb.SellCoinData", "coin_to_sell": map[string]interface{}{"id": "0", "symbol": "BIP"}, "value_to_sell": "1",
			"coin_to_buy": map[string]interface{}{"id": "1", "symbol": "HUB"}, "minimum_value_to_buy": "1"}
	}
	return tx
}

func (n *Node) ServeHTTP(w http.ResponseWriter, r *http.Request) {
	n.Mu.Lock()
	defer n.Mu.Unlock()
	w.Header().Set("Content-Type", "application/json")
	switch {
	case strings.HasSuffix(r.URL.Path, "/status"):
		json.NewEncoder(w).Encode(map[string]interface{}{"latest_block_height": fmt.Sprint(n.Latest), "version": "3", "network": "test", "initial_height": "1",
			"latest_block_hash": "00", "latest_app_hash": "00", "latest_block_time": "2021-01-01T00:00:00Z", "keep_last_states": "0", "total_slashed": "0",
			"catching_up": false, "public_key": "Mp00", "node_id": "0", "current_emission": "0"})
	case strings.HasSuffix(r.URL.Path, "/blocks") && n.FailBlocks > 0:
		n.FailBlocks--
		http.Error(w, `{"error":{"code":"500","message":"temporarily unavailable"}}`, 500)
	case strings.HasSuffix(r.URL.Path, "/blocks"):
		from, _ := strconv.ParseUint(r.URL.Query().Get("from_height"), 10, 64)
		to, _ := strconv.ParseUint(r.URL.Query().Get("to_height"), 10, 64)
		var out []interface{}
		for h := from; h <= to && h <= n.Latest && h >= 1 && int(h) <= len(n.Blocks); h++ {
			var txs []interface{}
			withFailed := r.URL.Query().Get("failed_txs") == "true"
			for i, t := range n.Blocks[h-1].Txs {
				if t.Failed && !withFailed {
					continue
				}
				j := n.txJSON(h, i, t)
				if t.Failed {
					j["code"], j["log"] = "107", "failed"
				}
				txs = append(txs, j)
			}
			out = append(out, map[string]interface{}{"height": fmt.Sprint(h), "hash": "00", "time": "2021-01-01T00:00:00Z", "transaction_count": fmt.Sprint(len(txs)),
				"transactions": txs, "block_reward": "0", "size": "1", "proposer": "Mp00", "validators": []interface{}{}, "evidence": map[string]interface{}{"evidence": []interface{}{}}, "missed": []string{}, "events": []interface{}{}, "code": "0"})
		}
		json.NewEncoder(w).Encode(map[string]interface{}{"blocks": out})
	case strings.Contains(r.URL.Path, "/address/"):
		out := map[string]interface{}{"balance": []interface{}{}, "delegated": []interface{}{}, "total": []interface{}{}, "transaction_count": "0", "bip_value": "0"}
		if n.Msig != nil && strings.HasSuffix(strings.ToLower(r.URL.Path), strings.ToLower(Multisig)) {
			ws := []string{}
			for _, x := range n.Msig.Weights {
				ws = append(ws, fmt.Sprint(x))
			}
			out["multisig"] = map[string]interface{}{"addresses": n.Msig.Addresses, "weights": ws, "threshold": fmt.Sprint(n.Msig.Threshold)}
			out["transaction_count"] = fmt.Sprint(n.Msig.TxCount)
		}
		json.NewEncoder(w).Encode(out)
	case strings.Contains(r.URL.Path, "/send_transaction/"):
		tx := r.URL.Path[strings.LastIndex(r.URL.Path, "/")+1:]
		code, lg := uint64(1), "no judge"
		if n.OnSend != nil {
			code, lg = n.OnSend(tx)
		}
		json.NewEncoder(w).Encode(map[string]interface{}{"code": fmt.Sprint(code), "log": lg, "hash": "Mt00"})
	default:
		http.Error(w, `{"error":{"code":"404","message":"not found"}}`, 404)
	}
}
