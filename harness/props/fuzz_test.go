package props

import (
	"testing"

	"pgregory.net/rapid"
)

// Native fuzz targets (thorough tier only): coverage-guided bytes drive the same generators.

func FuzzC07(f *testing.F) { f.Fuzz(rapid.MakeFuzz(checkC07().FuzzBody())) }
func FuzzC11(f *testing.F) { f.Fuzz(rapid.MakeFuzz(checkC11().FuzzBody())) }
func FuzzC14(f *testing.F) { f.Fuzz(rapid.MakeFuzz(checkC14().FuzzBody())) }
