package props

import (
	"bytes"
	"fmt"
	"math/big"
	"sort"
	"strings"
	"testing"

	sdk "github.com/cosmos/cosmos-sdk/types"
	"github.com/ethereum/go-ethereum/common"
	ethcrypto "github.com/ethereum/go-ethereum/crypto"
	"pgregory.net/rapid"

	mtypes "github.com/MinterTeam/mhub2/module/x/mhub2/types"

	"verifharness/pbt"
	"verifharness/sim"
)

// C16: signature confirmations.

type ConfOp struct {
	Kind    string `json:"kind"` // confirm | mkbatch | mkcall | newss | execbatch | execss | unbond | rebond | block
	Val     int    `json:"val"`
	Via     int    `json:"via"`    // 0 validator account, 1 own orchestrator, 2 foreign account, 3 another validator's orchestrator
	Chain   int    `json:"chain"`  // 0 ethereum, 1 bsc
	TxKind  int    `json:"txkind"` // 0 signer set, 1 batch, 2 contract call
	Pick    int    `json:"pick"`
	Unknown bool   `json:"unknown"` // a transaction that does not exist
	XChain  bool   `json:"xchain"`  // a transaction of the other chain
	Signer  int    `json:"signer"`  // 0 own registered address, 1 another validator's, 2 zero address, 3 random
	BadSig  bool   `json:"badsig"`
}

// (ConfCase.Start: batch nonces of this history begin after it; 254 makes the first batch number 255)
type ConfCase struct {
	Ops []ConfOp `json:"ops"`
	// Start: the chains' batch-nonce and sequence counters begin here (so that nonces like 255, 256, 65535 occur);
	// contract calls are numbered from Start+1 too
	Start uint64 `json:"start,omitempty"`
	// TokSpell: how the token list spells the contract addresses: 0 checksummed, 1 lower case, 2 upper-case digits
	// (all admissible; outgoing transactions and their confirmations are stored under the id exactly as listed)
	TokSpell int `json:"tok_spell,omitempty"`
}

var confChains = []string{"ethereum", "bsc"}

func genConfCase(t *rapid.T) interface{} {
	c := &ConfCase{Start: rapid.SampledFrom([]uint64{0, 0, 0, 253, 254, 255, 65533, 65534, 16777214}).Draw(t, "start")}
	c.TokSpell = rapid.SampledFrom([]int{0, 0, 0, 1, 2}).Draw(t, "tokspell")
	n := rapid.IntRange(6, 50).Draw(t, "nops")
	for i := 0; i < n; i++ {
		k := rapid.IntRange(0, 99).Draw(t, "k")
		op := ConfOp{Chain: rapid.IntRange(0, 1).Draw(t, "chain"), Val: rapid.SampledFrom([]int{0, 0, 1, 1, 2, 3}).Draw(t, "val")}
		switch {
		case k < 55:
			op.Kind = "confirm"
			op.Via = rapid.SampledFrom([]int{0, 0, 1, 1, 2, 3}).Draw(t, "via")
			op.TxKind = rapid.IntRange(0, 2).Draw(t, "txkind")
			op.Pick = rapid.IntRange(0, 5).Draw(t, "pick")
			op.Unknown = rapid.IntRange(0, 9).Draw(t, "unknown") == 0
			op.XChain = rapid.IntRange(0, 9).Draw(t, "xchain") == 0
			op.Signer = rapid.SampledFrom([]int{0, 0, 0, 0, 0, 1, 2, 3, 4, 4}).Draw(t, "signer")
			op.BadSig = rapid.IntRange(0, 5).Draw(t, "badsig") == 0
		case k < 65:
			op.Kind = "mkbatch"
		case k < 73:
			op.Kind = "mkcall"
			op.Pick = rapid.IntRange(1, 4).Draw(t, "invnonce")
		case k < 78:
			op.Kind = "newss"
		case k < 81:
			op.Kind = "execbatch"
			op.Pick = rapid.IntRange(0, 3).Draw(t, "pick")
		case k < 83:
			op.Kind = "execss" // the external chain adopted one of the published signer sets and the validators report it
			op.Pick = rapid.IntRange(0, 3).Draw(t, "pick")
		case k < 84:
			op.Kind = "rereg" // a validator replaces its external key and orchestrator
		case k < 86:
			op.Kind = "unbond"
		case k < 89:
			op.Kind = "rebond"
		case k < 91:
			// the external chain has moved far ahead (the validators report a deposit made at a much later height): every
			// pending batch of the chain passes its timeout, the hub withdraws it and builds its transfers into a new batch
			op.Kind = "tmout"
		default:
			op.Kind = "block"
		}
		c.Ops = append(c.Ops, op)
		if op.Kind == "tmout" {
			c.Ops = append(c.Ops, ConfOp{Kind: "block", Chain: op.Chain}, ConfOp{Kind: "block", Chain: op.Chain}, ConfOp{Kind: "mkbatch", Chain: op.Chain})
		}
	}
	return c
}

type confTx struct {
	chain  string
	kind   int
	key    string // printable identity
	ss     *mtypes.SignerSetTx
	batch  *mtypes.BatchTx
	call   *mtypes.ContractCallTx
	live   bool
	digest []byte
}

type confRec struct {
	addr common.Address
	sig  []byte
}

func runConfCase(ci interface{}, rec *pbt.Rec) *pbt.Failure {
	c := ci.(*ConfCase)
	keys := []string{"ethereum", "bsc"}
	toks := append([]sim.TokenCfg{}, attTokens...)
	for i := range toks {
		if strings.HasPrefix(toks[i].ExtId, "0x") {
			switch c.TokSpell {
			case 1:
				toks[i].ExtId = strings.ToLower(toks[i].ExtId)
			case 2:
				toks[i].ExtId = "0x" + strings.ToUpper(toks[i].ExtId[2:])
			}
		}
	}
	cfg := sim.Config{Tokens: toks, Prices: []sim.PriceCfg{{Name: "hub", Value: "1"}, {Name: "eth", Value: "1"}, {Name: "bnb", Value: "1"}},
		Vals: []sim.ValCfg{{Power: 10, Bonded: true, Keys: keys}, {Power: 12, Bonded: true, Keys: keys}, {Power: 5, Bonded: true, Keys: []string{"ethereum"}}, {Power: 9, Bonded: false, Keys: keys}}}
	cfg.StartBatchNonce, cfg.StartSequence = c.Start, c.Start
	h := sim.NewHub(cfg)
	// validator 2 registered keys on ethereum only
	hasKeyOn := func(v int, ch string) bool { return v != 2 || ch == "ethereum" }
	alt := map[string]int{} // chain|validator -> index of the key currently registered
	curAddr := func(v int, ch string) common.Address { return sim.EthAddr(v, ch, alt[fmt.Sprintf("%s|%d", ch, v)]) }
	h.Fund(sim.UserAddr(0), "hub", new(big.Int).Lsh(big.NewInt(1), 100))
	height, now := int64(1), int64(1600000005)
	if err := h.Begin(height, now); err != nil {
		return nil
	}
	gid := []byte(h.Cfg.GravityId)
	var txs []*confTx
	conf := map[string]map[int]confRec{} // tx key -> validator -> record
	reused := 0
	extH := uint64(100) // height the external chains report, never decreasing
	nonceOf := map[string]uint64{}
	var accepted, rejected int
	kindsConfirmed := map[int]bool{}
	valsConfirmed := map[int]bool{}

	refresh := func() {
		for _, ch := range confChains {
			live := map[string]bool{}
			for _, ss := range h.SignerSets(ch) {
				k := fmt.Sprintf("%s/ss/%d", ch, ss.Nonce)
				live[k] = true
				found := false
				for _, t := range txs {
					if t.key == k {
						found = true
					}
				}
				if !found {
					txs = append(txs, &confTx{chain: ch, kind: 0, key: k, ss: ss, digest: ss.GetCheckpoint(gid)})
				}
			}
			for _, b := range h.Batches(ch) {
				k := fmt.Sprintf("%s/batch/%s/%d", ch, b.ExternalTokenId, b.BatchNonce)
				live[k] = true
				found := false
				for _, t := range txs {
					if t.key == k {
						found = true
					}
				}
				if !found {
					txs = append(txs, &confTx{chain: ch, kind: 1, key: k, batch: b, digest: b.GetCheckpoint(gid)})
				}
				for _, t := range txs {
					if t.key == k && !bytes.Equal(t.digest, b.GetCheckpoint(gid)) {
						// another batch under an identifier that was in use before: a new transaction, which nobody has confirmed yet
						t.batch, t.digest = b, b.GetCheckpoint(gid)
						conf[k] = map[int]confRec{}
						reused++
					}
				}
			}
			h.K.IterateOutgoingTxsByType(h.Ctx(), mtypes.ChainID(ch), mtypes.ContractCallTxPrefixByte, func(_ []byte, o mtypes.OutgoingTx) bool {
				cc := o.(*mtypes.ContractCallTx)
				k := fmt.Sprintf("%s/call/%x/%d", ch, cc.InvalidationScope, cc.InvalidationNonce)
				live[k] = true
				found := false
				for _, t := range txs {
					if t.key == k {
						found = true
					}
				}
				if !found {
					txs = append(txs, &confTx{chain: ch, kind: 2, key: k, call: cc, digest: cc.GetCheckpoint(gid)})
				}
				return false
			})
			for _, t := range txs {
				if t.chain == ch {
					t.live = live[t.key]
				}
			}
		}
	}
	refresh()

	mkConf := func(t *confTx, signer common.Address, sig []byte, unknown bool) mtypes.ExternalTxConfirmation {
		bump := uint64(0)
		if unknown {
			bump = 1000
		}
		switch t.kind {
		case 0:
			return &mtypes.SignerSetTxConfirmation{SignerSetNonce: t.ss.Nonce + bump, ExternalSigner: signer.Hex(), Signature: sig}
		case 1:
			if unknown && t.batch.BatchNonce%2 == 1 {
				// no such outgoing tx either: the token id in another spelling (ids are strings; the store key is the string)
				return &mtypes.BatchTxConfirmation{ExternalTokenId: otherSpelling(t.batch.ExternalTokenId), BatchNonce: t.batch.BatchNonce, ExternalSigner: signer.Hex(), Signature: sig}
			}
			return &mtypes.BatchTxConfirmation{ExternalTokenId: t.batch.ExternalTokenId, BatchNonce: t.batch.BatchNonce + bump, ExternalSigner: signer.Hex(), Signature: sig}
		default:
			return &mtypes.ContractCallTxConfirmation{InvalidationScope: t.call.InvalidationScope, InvalidationNonce: t.call.InvalidationNonce + bump, ExternalSigner: signer.Hex(), Signature: sig}
		}
	}

	checkQueries := func() *pbt.Failure {
		ctx := sdk.WrapSDKContext(h.Ctx())
		for _, t := range txs {
			var got []confRec
			switch t.kind {
			case 0:
				r, err := h.K.SignerSetTxConfirmations(ctx, &mtypes.SignerSetTxConfirmationsRequest{SignerSetNonce: t.ss.Nonce, ChainId: t.chain})
				if err != nil {
					return pbt.Failf("query-error", "%s: %v", t.key, err)
				}
				for _, s := range r.Signatures {
					if s.SignerSetNonce != t.ss.Nonce {
						return pbt.Failf("query-wrong-tx", "%s: confirmation query returned an entry for nonce %d", t.key, s.SignerSetNonce)
					}
					got = append(got, confRec{common.HexToAddress(s.ExternalSigner), s.Signature})
				}
			case 1:
				r, err := h.K.BatchTxConfirmations(ctx, &mtypes.BatchTxConfirmationsRequest{BatchNonce: t.batch.BatchNonce, ExternalTokenId: t.batch.ExternalTokenId, ChainId: t.chain})
				if err != nil {
					return pbt.Failf("query-error", "%s: %v", t.key, err)
				}
				for _, s := range r.Signatures {
					got = append(got, confRec{common.HexToAddress(s.ExternalSigner), s.Signature})
				}
			case 2:
				r, err := h.K.ContractCallTxConfirmations(ctx, &mtypes.ContractCallTxConfirmationsRequest{InvalidationScope: t.call.InvalidationScope, InvalidationNonce: t.call.InvalidationNonce, ChainId: t.chain})
				if err != nil {
					return pbt.Failf("query-error", "%s: %v", t.key, err)
				}
				for _, s := range r.Signatures {
					got = append(got, confRec{common.HexToAddress(s.ExternalSigner), s.Signature})
				}
			}
			var want []confRec
			for _, r := range conf[t.key] {
				want = append(want, r)
			}
			srt := func(x []confRec) {
				sort.Slice(x, func(i, j int) bool {
					if x[i].addr != x[j].addr {
						return bytes.Compare(x[i].addr[:], x[j].addr[:]) < 0
					}
					return bytes.Compare(x[i].sig, x[j].sig) < 0
				})
			}
			srt(got)
			srt(want)
			if len(got) != len(want) {
				return pbt.Failf("confirmations-query-mismatch", "%s: query returns %d confirmations, %d were accepted", t.key, len(got), len(want))
			}
			for i := range got {
				if got[i].addr != want[i].addr || !bytes.Equal(got[i].sig, want[i].sig) {
					// is it the old confirmation of a validator that re-registered, now reported under its new address?
					var want2 []confRec
					for v, r := range conf[t.key] {
						want2 = append(want2, confRec{curAddr(v, t.chain), r.sig})
					}
					srt(want2)
					same := len(want2) == len(got)
					for j := range got {
						if same && (got[j].addr != want2[j].addr || !bytes.Equal(got[j].sig, want2[j].sig)) {
							same = false
						}
					}
					if same {
						return pbt.Failf("attribution-after-reregistration", "%s: a confirmation made under external address %s is reported under %s after the validator registered a new key", t.key, want[i].addr.Hex(), got[i].addr.Hex())
					}
					return pbt.Failf("confirmations-query-mismatch", "%s: query returns (%s, %x..), accepted was (%s, %x..)", t.key, got[i].addr.Hex(), got[i].sig[:4], want[i].addr.Hex(), want[i].sig[:4])
				}
			}
		}
		// unsigned lists
		for v := 0; v < 4; v++ {
			if !h.Staking.Vals[v].Bonded {
				continue
			}
			for _, ch := range confChains {
				addr := sdk.AccAddress(sim.ValAddr(v)).String()
				want := map[string]bool{}
				for _, t := range txs {
					if t.chain == ch && t.live {
						if _, done := conf[t.key][v]; !done {
							want[t.key] = true
						}
					}
				}
				got := map[string]bool{}
				r1, err := h.K.UnsignedSignerSetTxs(ctx, &mtypes.UnsignedSignerSetTxsRequest{Address: addr, ChainId: ch})
				if err != nil {
					return pbt.Failf("query-error", "UnsignedSignerSetTxs(%d,%s): %v", v, ch, err)
				}
				for _, s := range r1.SignerSets {
					got[fmt.Sprintf("%s/ss/%d", ch, s.Nonce)] = true
				}
				r2, err := h.K.UnsignedBatchTxs(ctx, &mtypes.UnsignedBatchTxsRequest{Address: addr, ChainId: ch})
				if err != nil {
					return pbt.Failf("query-error", "UnsignedBatchTxs(%d,%s): %v", v, ch, err)
				}
				for _, b := range r2.Batches {
					got[fmt.Sprintf("%s/batch/%s/%d", ch, b.ExternalTokenId, b.BatchNonce)] = true
				}
				r3, err := h.K.UnsignedContractCallTxs(ctx, &mtypes.UnsignedContractCallTxsRequest{Address: addr, ChainId: ch})
				if err != nil {
					return pbt.Failf("query-error", "UnsignedContractCallTxs(%d,%s): %v", v, ch, err)
				}
				for _, cc := range r3.Calls {
					got[fmt.Sprintf("%s/call/%x/%d", ch, cc.InvalidationScope, cc.InvalidationNonce)] = true
				}
				for k := range want {
					if !got[k] {
						return pbt.Failf("unsigned-query-mismatch", "validator %d has not confirmed %s but it is not listed as unsigned", v, k)
					}
				}
				for k := range got {
					if !want[k] {
						return pbt.Failf("unsigned-query-mismatch", "%s is listed as unsigned for validator %d although it confirmed it or the tx is gone", k, v)
					}
				}
			}
		}
		return nil
	}

	for _, op := range c.Ops {
		ch := confChains[op.Chain%2]
		switch op.Kind {
		case "block":
			if err := h.End(); err != nil {
				return nil
			}
			height++
			now += 5
			if err := h.Begin(height, now); err != nil {
				return nil
			}
		case "unbond":
			v := op.Val % 4
			h.QueueStaking(func(s *sim.SimStaking) {
				n := 0
				for _, x := range s.Vals {
					if x.Bonded {
						n++
					}
				}
				if n > 2 {
					s.Vals[v].Bonded, s.Vals[v].Unbonding = false, true
				}
			})
		case "rebond":
			v := op.Val % 4
			h.QueueStaking(func(s *sim.SimStaking) { s.Vals[v].Bonded, s.Vals[v].Unbonding = true, false })
		case "rereg":
			v := op.Val % 2
			k := fmt.Sprintf("%s|%d", ch, v)
			ctx := h.Ctx()
			a := h.Acc.GetAccount(ctx, sdk.AccAddress(sim.ValAddr(v)))
			seq := a.GetSequence()
			bz := h.Cdc.MustMarshal(&mtypes.DelegateKeysSignMsg{ValidatorAddress: sim.ValAddr(v).String(), Nonce: seq})
			sg, _ := mtypes.NewEthereumSignature(ethcrypto.Keccak256Hash(bz).Bytes(), sim.EthKey(v, ch, alt[k]+1))
			a.SetSequence(seq + 1)
			h.Acc.SetAccount(ctx, a)
			r := h.Deliver(&mtypes.MsgDelegateKeys{ValidatorAddress: sim.ValAddr(v).String(), OrchestratorAddress: sim.OrchAddr(20 + 4*alt[k] + v).String(),
				ExternalAddress: sim.EthAddr(v, ch, alt[k]+1).Hex(), EthSignature: sg, ChainId: ch})
			if r.Err == nil {
				alt[k]++
			}
		case "newss":
			v := op.Val % 2
			h.QueueStaking(func(s *sim.SimStaking) { s.Vals[v].Power = s.Vals[v].Power*2 + 1 })
		case "mkbatch":
			h.Deliver(mtypes.NewMsgSendToExternal(mtypes.ChainID(ch), sim.UserAddr(0), sim.ExtUser(1).Hex(), sdk.NewInt64Coin("hub", 1000), sdk.NewInt64Coin("hub", 10)))
			h.Deliver(&mtypes.MsgRequestBatchTx{Denom: "hub", Signer: sim.UserAddr(0).String(), ChainId: ch})
		case "mkcall":
			scope := []byte{byte(op.Val + 1), 7}
			if nonceOf[ch+string(scope)] == 0 {
				nonceOf[ch+string(scope)] = c.Start
			}
			nonceOf[ch+string(scope)]++
			h.K.CreateContractCallTx(h.Ctx(), mtypes.ChainID(ch), nonceOf[ch+string(scope)], scope, []byte("payload"), nil, nil)
		case "execbatch":
			bs := h.Batches(ch)
			if len(bs) == 0 {
				break
			}
			b := bs[op.Pick%len(bs)]
			n := h.K.GetLastObservedEventNonce(h.Ctx(), mtypes.ChainID(ch)) + 1
			any, _ := mtypes.PackEvent(&mtypes.BatchExecutedEvent{ExternalCoinId: b.ExternalTokenId, EventNonce: n, ExternalHeight: extH, BatchNonce: b.BatchNonce, TxHash: "0x1", FeePaid: sdk.NewInt(1), FeePayer: sim.ExtUser(3).Hex()})
			for vi := 0; vi < 4; vi++ {
				if h.Staking.Vals[vi].Bonded {
					h.Deliver(&mtypes.MsgSubmitExternalEvent{Event: any, Signer: sdk.AccAddress(sim.ValAddr(vi)).String(), ChainId: ch})
				}
			}
		case "tmout":
			extH += 10000000
			n := h.K.GetLastObservedEventNonce(h.Ctx(), mtypes.ChainID(ch)) + 1
			var ext string
			for _, tk := range toks {
				if tk.Chain == ch && tk.Denom == "hub" {
					ext = tk.ExtId
				}
			}
			any, _ := mtypes.PackEvent(&mtypes.SendToHubEvent{EventNonce: n, ExternalCoinId: ext, Amount: sdk.NewInt(5), Sender: sim.ExtUser(1).Hex(), CosmosReceiver: sim.UserAddr(1).String(), ExternalHeight: extH, TxHash: fmt.Sprintf("0x3%d", n)})
			for vi := 0; vi < 4; vi++ {
				if h.Staking.Vals[vi].Bonded {
					h.Deliver(&mtypes.MsgSubmitExternalEvent{Event: any, Signer: sdk.AccAddress(sim.ValAddr(vi)).String(), ChainId: ch})
				}
			}
		case "execss":
			sets := h.SignerSets(ch)
			if len(sets) == 0 {
				break
			}
			ss := sets[len(sets)-1-op.Pick%len(sets)]
			n := h.K.GetLastObservedEventNonce(h.Ctx(), mtypes.ChainID(ch)) + 1
			any, _ := mtypes.PackEvent(&mtypes.SignerSetTxExecutedEvent{EventNonce: n, SignerSetTxNonce: ss.Nonce, ExternalHeight: extH, Members: ss.Signers, TxHash: "0x2"})
			for vi := 0; vi < 4; vi++ {
				if h.Staking.Vals[vi].Bonded {
					h.Deliver(&mtypes.MsgSubmitExternalEvent{Event: any, Signer: sdk.AccAddress(sim.ValAddr(vi)).String(), ChainId: ch})
				}
			}
		case "confirm":
			refresh()
			var cands []*confTx
			txChain := ch
			if op.XChain {
				txChain = confChains[(op.Chain+1)%2]
			}
			for _, t := range txs {
				if t.chain == txChain && t.kind == op.TxKind {
					cands = append(cands, t)
				}
			}
			if len(cands) == 0 {
				break
			}
			t := cands[op.Pick%len(cands)]
			v := op.Val % 4
			// who sends, and which validator that resolves to
			var signerAcc sdk.AccAddress
			resolved := -1
			switch op.Via {
			case 0:
				signerAcc = sdk.AccAddress(sim.ValAddr(v))
				resolved = v
			case 1:
				signerAcc = sim.OrchAddr(v)
				if hasKeyOn(v, ch) {
					resolved = v // orchestrators are registered together with the keys
				}
			case 2:
				signerAcc = sim.UserAddr(1)
			case 3:
				o := (v + 1) % 4
				signerAcc = sim.OrchAddr(o)
				if hasKeyOn(o, ch) {
					resolved = o
				}
			}
			var claimed common.Address
			switch op.Signer {
			case 0:
				claimed = curAddr(v, ch)
				if resolved >= 0 {
					claimed = curAddr(resolved, ch)
				}
			case 1:
				claimed = curAddr((v+1)%2, ch)
				if resolved >= 0 {
					claimed = curAddr((resolved+1)%2, ch)
				}
			case 2:
				claimed = common.Address{}
			case 4:
				// the sender's address on the OTHER chain
				oc := confChains[(op.Chain+1)%2]
				claimed = curAddr(v, oc)
				if resolved >= 0 {
					claimed = curAddr(resolved, oc)
				}
			default:
				claimed = sim.ExtUser(6)
			}
			sig, _ := mtypes.NewEthereumSignature(t.digest, sim.EthKey(v, ch, alt[fmt.Sprintf("%s|%d", ch, v)]))
			if op.BadSig {
				sig = bytes.Repeat([]byte{0x5a}, 65)
			}
			any, err := mtypes.PackConfirmation(mkConf(t, claimed, sig, op.Unknown))
			if err != nil {
				return pbt.Failf("harness", "%v", err)
			}
			registered := common.Address{}
			if resolved >= 0 && hasKeyOn(resolved, ch) {
				registered = curAddr(resolved, ch)
			}
			// the message names its chain itself; the confirmation only carries the tx identity, so a
			// tx "of the other chain" may coincide with one of this chain (signer set nonces start at 1 everywhere)
			if op.XChain {
				var same *confTx
				for _, o := range txs {
					if o.chain != ch || o.kind != t.kind {
						continue
					}
					switch t.kind {
					case 0:
						if o.ss.Nonce == t.ss.Nonce {
							same = o
						}
					case 1:
						if o.batch.BatchNonce == t.batch.BatchNonce && o.batch.ExternalTokenId == t.batch.ExternalTokenId {
							same = o
						}
					case 2:
						if o.call.InvalidationNonce == t.call.InvalidationNonce && bytes.Equal(o.call.InvalidationScope, t.call.InvalidationScope) {
							same = o
						}
					}
				}
				if same != nil {
					t = same
					op.XChain = false
				}
			}
			_, dup := conf[t.key][resolved]
			shouldOK := resolved >= 0 && h.Staking.Vals[resolved].Bonded && t.live && !op.Unknown && !op.XChain &&
				registered != (common.Address{}) && claimed == registered && !dup
			before := h.StateHash()
			res := h.Deliver(&mtypes.MsgSubmitExternalTxConfirmation{Confirmation: any, Signer: signerAcc.String(), ChainId: ch})
			ok := res.Err == nil
			if ok && !shouldOK {
				why := "unknown"
				switch {
				case resolved < 0:
					why = "sender-is-no-validator-or-orchestrator"
				case !h.Staking.Vals[resolved].Bonded:
					why = "validator-not-bonded"
				case !t.live || op.Unknown || op.XChain:
					why = "no-such-outgoing-tx"
				case registered == (common.Address{}):
					why = "validator-has-no-registered-address"
				case claimed != registered:
					why = "claimed-signer-is-not-the-registered-address"
				case dup:
					why = "duplicate"
				}
				return pbt.Failf("confirmation-accepted:"+why, "%s: confirmation by validator %d (via %d, claimed signer %s, registered %s, tx live=%v unknown=%v xchain=%v) was accepted", t.key, resolved, op.Via, claimed.Hex(), registered.Hex(), t.live, op.Unknown, op.XChain)
			}
			if !ok && shouldOK {
				return pbt.Failf("valid-confirmation-refused", "%s: confirmation by validator %d refused: %v", t.key, resolved, res.Err)
			}
			if !ok {
				rejected++
				if h.StateHash() != before {
					return pbt.Failf("refused-confirmation-wrote", "%s: refused confirmation changed state", t.key)
				}
			} else {
				accepted++
				if conf[t.key] == nil {
					conf[t.key] = map[int]confRec{}
				}
				conf[t.key][resolved] = confRec{registered, sig}
				kindsConfirmed[t.kind] = true
				valsConfirmed[resolved] = true
			}
		}
		refresh()
		if f := checkQueries(); f != nil {
			return f
		}
	}
	rec.NonTrivial = len(valsConfirmed) >= 2 && len(kindsConfirmed) >= 2 && rejected > 0
	if reused > 0 {
		rec.Label("batch-identifier-reused")
	}
	gone := 0
	for _, t := range txs {
		if t.kind == 1 && !t.live && len(conf[t.key]) > 0 {
			gone++
		}
	}
	rec.Label("confirmed-batches-gone=" + bucket(gone))
	rec.Label("accepted=" + bucket(accepted))
	rec.Label("rejected=" + bucket(rejected))
	rec.Label(fmt.Sprintf("kinds-confirmed=%d", len(kindsConfirmed)))
	return nil
}

func TestC16(t *testing.T) {
	(&pbt.Check{
		ID:          "C16",
		Rule:        "histories of outgoing transactions of the three kinds on two chains (new signer sets, batches, contract calls, executed batches) and confirmation messages: right, unknown tx, tx of the other chain, claimed signer = another validator's / zero / random address, validator without registered key, unbonded validator, foreign account, via own or another validator's orchestrator, duplicates, after the tx is gone, arbitrary signature bytes; after every step the three confirmation queries and the three unsigned-tx queries are compared with a reference set; non-trivial = >=2 validators confirmed >=2 kinds of tx and >=1 message was rejected; distinct = distinct case JSON",
		Gen:         genConfCase,
		New:         func() interface{} { return &ConfCase{} },
		Run:         runConfCase,
		Assumptions: []string{"re-registration of keys is generated rarely; its effect on the attribution of old confirmations is a recorded finding", "the statement does not require the signature bytes to verify; they are not judged"},
	}).Main(t)
}

// otherSpelling: the same contract address written differently from id (lower case, or upper-case digits if id is lower case already).
func otherSpelling(id string) string {
	if l := strings.ToLower(id); l != id {
		return l
	}
	if strings.HasPrefix(id, "0x") {
		return "0x" + strings.ToUpper(id[2:])
	}
	return id + " "
}
