package props

import (
	"fmt"
	"math/big"
	"strings"
	"testing"

	sdk "github.com/cosmos/cosmos-sdk/types"
	"pgregory.net/rapid"

	"github.com/MinterTeam/mhub2/module/x/mhub2"
	mtypes "github.com/MinterTeam/mhub2/module/x/mhub2/types"

	"verifharness/bridge"
	"verifharness/pbt"
	"verifharness/sim"
)

// C11: single-message experiments with an exact-arithmetic oracle.

type AmtCase struct {
	Kind       string    `json:"kind"` // send | deposit | tohub
	SrcDec     uint64    `json:"src_dec"`
	DstDec     uint64    `json:"dst_dec"`
	Rate       string    `json:"rate"`   // commission rate of the destination token, 18 fractional digits
	Amount     string    `json:"amount"` // hub units for send, external units for deposits
	Fee        string    `json:"fee"`
	Balance    string    `json:"balance"` // sender's hub balance before a send
	DstChain   int       `json:"dst_chain"`
	SameAddr   int       `json:"same_addr,omitempty"` // 1: the two EVM chains list the token under one contract address, 2: same address, other spelling
	FeeDenom   int       `json:"fee_denom"`           // 1 = fee in another denom (stateless reject), 2 = unknown denom for both
	HolderWho  int       `json:"holder_who"`          // 0 none, 1 sender, 2 recipient, 3 both
	HolderVal  [2]string `json:"holder_val"`
	HolderForm int       `json:"holder_form"` // 0 as used in lookups, 1 upper-case hex, 2 with 0x prefix
	Recipient  int       `json:"recipient"`
	// OldRate / OldDstDec: the token list the chain starts with gives the destination token this commission rate and
	// these decimals; after some use, a governance proposal (TokenInfosChangeProposal) installs the values of Rate /
	// DstDec, and only then the measured request is made
	OldRate   string `json:"old_rate,omitempty"`
	OldDstDec uint64 `json:"old_dst_dec,omitempty"`
	// TempDust: hub-denom units already lying on the module's transit address (types.TempAddress) when the measured
	// request arrives - commission remainders and non-Minter fee refunds collect there, and anyone can send to it
	TempDust string `json:"temp_dust,omitempty"`
}

var tierBounds = []int64{1, 2, 4, 8, 16, 32}

func genAmtCase(t *rapid.T) interface{} {
	c := &AmtCase{}
	c.Kind = rapid.SampledFrom([]string{"send", "send", "send", "deposit", "tohub", "tochain"}).Draw(t, "kind")
	decs := []uint64{0, 1, 6, 8, 17, 18, 19, 24}
	c.SrcDec = decs[rapid.IntRange(0, len(decs)-1).Draw(t, "srcdec")]
	c.DstDec = decs[rapid.IntRange(0, len(decs)-1).Draw(t, "dstdec")]
	// rate in [0,1) with up to 18 fractional digits
	switch rapid.IntRange(0, 4).Draw(t, "rateclass") {
	case 0:
		c.Rate = "0"
	case 1:
		c.Rate = rapid.SampledFrom([]string{"0.01", "0.001", "0.5", "0.1", "0.999999999999999999", "0.000000000000000001"}).Draw(t, "rate")
	default:
		n := rapid.Int64Range(0, 999999999999999999).Draw(t, "ratei")
		c.Rate = fmt.Sprintf("0.%018d", n)
	}
	amt := func(label string) string {
		switch rapid.IntRange(0, 5).Draw(t, label+"class") {
		case 0:
			return fmt.Sprint(rapid.Int64Range(1, 2000).Draw(t, label))
		case 1:
			e := rapid.IntRange(0, 30).Draw(t, label+"e")
			d := rapid.Int64Range(-2, 2).Draw(t, label+"off")
			x := new(big.Int).Add(pow10(uint64(e)), big.NewInt(d))
			if x.Sign() <= 0 {
				x = big.NewInt(1)
			}
			return x.String()
		case 2:
			b := rapid.IntRange(1, 255).Draw(t, label+"bits")
			x := new(big.Int).Lsh(big.NewInt(1), uint(b))
			x.Add(x, big.NewInt(rapid.Int64Range(-1, 1).Draw(t, label+"off")))
			return x.String()
		case 3:
			// the top of the range: a value that is worth 2^252 .. 2^255 hub units (with what circulates already, the supply
			// then lies between 2^255 and 2^256 - still inside what an Int holds, still to be credited exactly)
			b := rapid.SampledFrom([]uint{252, 253, 254, 254, 255}).Draw(t, label+"top")
			x := new(big.Int).Lsh(big.NewInt(1), b)
			x.Add(x, big.NewInt(rapid.Int64Range(-1, 1).Draw(t, label+"off")))
			if c.Kind != "send" {
				x.Mul(x, pow10(c.SrcDec))
				x.Quo(x, pow10(18))
			}
			if x.Sign() <= 0 {
				x = big.NewInt(1)
			}
			return x.String()
		default:
			return fmt.Sprint(rapid.Int64Range(1, 1<<62).Draw(t, label))
		}
	}
	c.Amount = amt("amt")
	if rapid.IntRange(0, 3).Draw(t, "feezero") == 0 {
		c.Fee = "0"
	} else {
		c.Fee = amt("fee")
	}
	switch rapid.IntRange(0, 5).Draw(t, "balclass") {
	case 0:
		c.Balance = "0"
	case 1:
		// exactly enough, or one short
		x := new(big.Int).Add(bi(c.Amount), bi(c.Fee))
		x.Sub(x, big.NewInt(rapid.Int64Range(0, 1).Draw(t, "short")))
		c.Balance = x.String()
	default:
		c.Balance = new(big.Int).Lsh(big.NewInt(1), 254).String()
	}
	c.DstChain = rapid.IntRange(0, 2).Draw(t, "dst")
	c.SameAddr = rapid.SampledFrom([]int{0, 0, 0, 1, 2}).Draw(t, "sameaddr")
	if rapid.IntRange(0, 4).Draw(t, "governed") == 0 {
		c.OldRate = rapid.SampledFrom([]string{"0", "0.01", "0.25", "0.000000000000000001"}).Draw(t, "oldrate")
		c.OldDstDec = decs[rapid.IntRange(0, len(decs)-1).Draw(t, "olddec")]
	}
	c.FeeDenom = rapid.SampledFrom([]int{0, 0, 0, 0, 0, 0, 1, 2}).Draw(t, "feedenom")
	c.HolderWho = rapid.IntRange(0, 3).Draw(t, "holderwho")
	for i := 0; i < 2; i++ {
		// the six tier bounds and holdings far above the top tier (the discount must stay at the top tier's 60%)
		pts := []int64{1, 2, 4, 8, 16, 32, 64, 128, 512, 1024, 1000000}
		tb := pts[rapid.IntRange(0, len(pts)-1).Draw(t, "tier")]
		v := new(big.Int).Mul(big.NewInt(tb), pow10(18))
		v.Add(v, big.NewInt(rapid.Int64Range(-1, 1).Draw(t, "tieroff")))
		if rapid.IntRange(0, 5).Draw(t, "hzero") == 0 {
			v = big.NewInt(0)
		}
		c.HolderVal[i] = v.String()
	}
	c.HolderForm = rapid.SampledFrom([]int{0, 0, 0, 1, 2}).Draw(t, "hform")
	c.Recipient = rapid.IntRange(0, 3).Draw(t, "rcpt")
	if rapid.IntRange(0, 2).Draw(t, "dusty") == 0 {
		c.TempDust = rapid.SampledFrom([]string{"1", "2", "999", "1000000000000000000", "123456789012345678901234"}).Draw(t, "dust")
	}
	return c
}

// tierOf returns the discount in tenths for a holder value.
func tierOf(v *big.Int) int64 {
	k := int64(0)
	for i, b := range tierBounds {
		if v.Cmp(new(big.Int).Mul(big.NewInt(b), pow10(18))) >= 0 {
			k = int64(i + 1)
		}
	}
	return k
}

// refCommission = floor(rate_eff * base) with rate_eff = rate - floor18(rate*10k/100).
func refCommission(rate string, k int64, base *big.Int) *big.Int {
	r := sdk.MustNewDecFromStr(rate).BigInt() // rate * 10^18
	disc := new(big.Int).Mul(r, big.NewInt(10*k))
	disc.Div(disc, big.NewInt(100))
	reff := new(big.Int).Sub(r, disc)
	c := new(big.Int).Mul(reff, base)
	return c.Div(c, pow10(18))
}

func runAmtCase(ci interface{}, rec *pbt.Rec) *pbt.Failure {
	c := ci.(*AmtCase)
	dst := bridge.ExtChains[c.DstChain%3]
	src := "ethereum"
	if dst == "ethereum" {
		src = "bsc"
	}
	ids := map[string]string{"ethereum": "0xA091Bb826756eA25114c512B916754b3fBCb4f63", "bsc": "0xf7413144696C5E5502307A8015c6359965CAA725", "minter": "7"}
	if c.SameAddr > 0 {
		// the token lives at the same contract address on both EVM chains (usual for tokens deployed with one key);
		// the two list entries spell it differently now and then
		ids["bsc"] = ids["ethereum"]
		if c.SameAddr == 2 {
			ids["bsc"] = strings.ToLower(ids["ethereum"])
		}
	}
	cfg := sim.Config{
		Tokens: []sim.TokenCfg{
			{Id: 1, Denom: "hub", Chain: src, ExtId: ids[src], Decimals: c.SrcDec, Commission: "0.02"},
			{Id: 2, Denom: "hub", Chain: dst, ExtId: ids[dst], Decimals: c.DstDec, Commission: c.Rate},
			{Id: 3, Denom: "other", Chain: "minter", ExtId: "99", Decimals: 18, Commission: "0.01"},
		},
		Vals:   []sim.ValCfg{{Power: 5, Bonded: true, Keys: []string{"ethereum", "bsc", "minter"}}},
		Prices: []sim.PriceCfg{{Name: "hub", Value: "1"}, {Name: "other", Value: "1"}, {Name: "eth", Value: "1"}, {Name: "bnb", Value: "1"}},
	}
	if src == "minter" || dst == "minter" {
		// keep token ids distinct from "99"
	}
	sender := sim.UserAddr(0)
	rcpt := sim.ExtUser(c.Recipient % 4)
	form := func(a string) string {
		switch c.HolderForm {
		case 1:
			return strings.ToUpper(a)
		case 2:
			return "0x" + a
		}
		return a
	}
	// the module looks holders up by the sender's bech32 string and by the recipient hex without 0x
	var holderOfSender, holderOfRcpt *big.Int
	if c.HolderWho&1 != 0 {
		cfg.Holders = append(cfg.Holders, sim.HolderCfg{Addr: form(sender.String()), Value: c.HolderVal[0]})
		holderOfSender = bi(c.HolderVal[0])
	}
	if c.HolderWho&2 != 0 {
		cfg.Holders = append(cfg.Holders, sim.HolderCfg{Addr: form(rcpt.Hex()[2:]), Value: c.HolderVal[1]})
		holderOfRcpt = bi(c.HolderVal[1])
	}
	// effective tier: a list entry written with a 0x prefix is never matched (lookups strip the prefix), case is ignored
	best := new(big.Int)
	if c.HolderForm != 2 {
		for _, v := range []*big.Int{holderOfSender, holderOfRcpt} {
			if v != nil && v.Cmp(best) > 0 {
				best = v
			}
		}
	}
	k := tierOf(best)

	cfgNew := cfg
	cfgNew.Tokens = append([]sim.TokenCfg{}, cfg.Tokens...)
	if c.OldRate != "" {
		cfg.Tokens = append([]sim.TokenCfg{}, cfg.Tokens...)
		for i := range cfg.Tokens {
			if cfg.Tokens[i].Denom == "hub" && cfg.Tokens[i].Chain == dst {
				cfg.Tokens[i].Commission, cfg.Tokens[i].Decimals = c.OldRate, c.OldDstDec
			}
		}
	}
	h := sim.NewHub(cfg)
	funded := new(big.Int) // what the sender really owns before the request
	if bal := bi(c.Balance); bal.Sign() > 0 {
		// the supply must stay inside an sdk.Int together with the transit dust and the warm-up account of the governance
		// prelude: the largest balance there is ("exactly enough" for two 2^255-scale values is more, and then is not enough)
		if top := new(big.Int).Sub(new(big.Int).Lsh(big.NewInt(1), 256), pow10(31)); bal.Cmp(top) > 0 {
			bal = top
		}
		funded = bal
		if c.Kind != "send" && bal.BitLen() > 254 {
			// a deposit mints: with the supply already at the top of the range the mint itself is impossible (C05's subject, not a
			// question of amounts); the sender's balance plays no part in a deposit, so it stays where a mint still fits
			bal = new(big.Int).Lsh(big.NewInt(1), 254)
			funded = bal
		}
		h.Fund(sender, "hub", bal)
	}
	if c.TempDust != "" {
		h.Fund(mtypes.TempAddress, "hub", bi(c.TempDust))
	}
	if err := h.Begin(1, 1600000005); err != nil {
		return pbt.Failf("harness", "begin: %v", err)
	}
	if c.OldRate != "" {
		// use the old list a little (lookups by denom and by external id, a small withdrawal), then change it by governance
		warm := sdk.AccAddress([]byte("verif-warmup-acct-01"))
		h.Fund(warm, "hub", pow10(30))
		if r := h.Deliver(mtypes.NewMsgSendToExternal(mtypes.ChainID(dst), warm, sim.ExtUser(3).Hex(), sdk.NewCoin("hub", sdk.NewIntFromBigInt(pow10(24))), sdk.NewCoin("hub", sdk.NewInt(0)))); r.Err == nil {
			// and take it back, so that the measured request finds the pool as empty as without this prelude
			if resp, ok := r.Resp.(*mtypes.MsgSendToExternalResponse); ok {
				h.Deliver(&mtypes.MsgCancelSendToExternal{Id: resp.Id, Sender: warm.String(), ChainId: dst})
			}
		}
		for _, ch := range []string{src, dst} {
			h.K.DenomToExternalId(sdk.WrapSDKContext(h.Ctx()), &mtypes.DenomToExternalIdRequest{Denom: "hub", ChainId: ch})
			h.K.ExternalIdToDenom(sdk.WrapSDKContext(h.Ctx()), &mtypes.ExternalIdToDenomRequest{ExternalId: ids[ch], ChainId: ch})
		}
		infos := &mtypes.TokenInfos{}
		for _, tk := range cfgNew.Tokens {
			infos.TokenInfos = append(infos.TokenInfos, &mtypes.TokenInfo{Id: tk.Id, Denom: tk.Denom, ChainId: tk.Chain, ExternalTokenId: tk.ExtId, ExternalDecimals: tk.Decimals, Commission: sdk.MustNewDecFromStr(tk.Commission)})
		}
		if err := mhub2.NewProposalsHandler(h.K)(h.Ctx(), &mtypes.TokenInfosChangeProposal{NewInfos: infos}); err != nil {
			return pbt.Failf("harness", "token infos change: %v", err)
		}
		rec.Label("token-list-changed-by-governance")
	}
	// sdk.Int holds at most 256 bits; anything larger stands for the largest value a message can carry
	clamp := func(x *big.Int) *big.Int {
		if x.BitLen() > 256 {
			return new(big.Int).Sub(new(big.Int).Lsh(big.NewInt(1), 256), big.NewInt(1))
		}
		return x
	}
	amount, fee := clamp(bi(c.Amount)), clamp(bi(c.Fee))
	rec.Label("kind=" + c.Kind)

	switch c.Kind {
	case "send":
		denomA, denomF := "hub", "hub"
		if c.FeeDenom == 1 {
			denomF = "other"
		}
		if c.FeeDenom == 2 {
			denomA, denomF = "nope", "nope"
		}
		msg := mtypes.NewMsgSendToExternal(mtypes.ChainID(dst), sender, rcpt.Hex(), sdk.NewCoin(denomA, sdk.NewIntFromBigInt(amount)), sdk.NewCoin(denomF, sdk.NewIntFromBigInt(fee)))
		before := h.StateHash()
		balBefore, supBefore := h.Balance(sender, "hub"), h.Supply("hub")
		res := h.Deliver(msg)
		total := new(big.Int).Add(amount, fee)
		comm := refCommission(c.Rate, k, total)
		mustFail := c.FeeDenom != 0 || funded.Cmp(total) < 0 || comm.Cmp(amount) > 0
		// values that leave the 256-bit range while being converted may be refused or not
		overflow := total.BitLen() > 255 || bridge.ToExt(c.DstDec, total).BitLen() > 255
		nearTier := false
		for _, b := range tierBounds {
			d := new(big.Int).Sub(best, new(big.Int).Mul(big.NewInt(b), pow10(18)))
			if d.CmpAbs(big.NewInt(1)) <= 0 {
				nearTier = true
			}
		}
		truncates := new(big.Int).Mod(new(big.Int).Mul(new(big.Int).Sub(amount, comm), pow10(c.DstDec)), pow10(18)).Sign() != 0
		rec.NonTrivial = mustFail || nearTier || (c.DstDec != 18 && truncates)
		if nearTier {
			rec.Label("holder-at-tier-boundary")
		}
		if res.Err != nil {
			rec.Label("send-failed")
			if h.StateHash() != before {
				return pbt.Failf("failed-send-wrote", "a failed withdrawal request changed state (err: %v)", res.Err)
			}
			if !mustFail && !overflow {
				return pbt.Failf("valid-send-refused", "withdrawal of %s+%s (balance %s, commission %s) was refused: %v", amount, fee, c.Balance, comm, res.Err)
			}
			return nil
		}
		rec.Label("send-ok")
		if mustFail {
			return pbt.Failf("invalid-send-accepted", "withdrawal of %s+%s with balance %s, commission %s, fee-denom mode %d was accepted", amount, fee, c.Balance, comm, c.FeeDenom)
		}
		debit := new(big.Int).Sub(balBefore, h.Balance(sender, "hub"))
		if debit.Cmp(total) != 0 {
			return pbt.Failf("debit-not-exact", "sender debited %s for amount %s + fee %s", debit, amount, fee)
		}
		if burned := new(big.Int).Sub(supBefore, h.Supply("hub")); burned.Cmp(total) != 0 {
			return pbt.Failf("burn-not-exact", "supply decreased by %s for amount %s + fee %s", burned, amount, fee)
		}
		pool := h.Pool(dst)
		if len(pool) != 1 {
			return pbt.Failf("pool-entry-count", "%d pool entries after one accepted withdrawal", len(pool))
		}
		e := pool[0]
		maxComm := refCommission(c.Rate, 0, total)
		gotComm := e.ValCommission.Amount.BigInt()
		wantTok := bridge.ToExt(c.DstDec, new(big.Int).Sub(amount, comm))
		wantFee := bridge.ToExt(c.DstDec, fee)
		wantComm := bridge.ToExt(c.DstDec, comm)
		if gotComm.Cmp(bridge.ToExt(c.DstDec, maxComm)) > 0 {
			return pbt.Failf("commission-above-rate", "commission %s exceeds rate %s on %s (max %s)", gotComm, c.Rate, total, bridge.ToExt(c.DstDec, maxComm))
		}
		if gotComm.Cmp(wantComm) != 0 {
			return pbt.Failf("commission-not-exact", "commission recorded %s, expected %s (rate %s, holder tier %d of value %s, base %s)", gotComm, wantComm, c.Rate, k, best, total)
		}
		if e.Token.Amount.BigInt().Cmp(wantTok) != 0 {
			return pbt.Failf("scheduled-amount-not-exact", "scheduled %s for the recipient, expected toExt(%s - %s) = %s", e.Token.Amount, amount, comm, wantTok)
		}
		if e.Fee.Amount.BigInt().Cmp(wantFee) != 0 {
			return pbt.Failf("fee-record-not-exact", "recorded fee %s, expected %s", e.Fee.Amount, wantFee)
		}
		if e.ExternalRecipient != rcpt.Hex() || e.Sender != sender.String() {
			return pbt.Failf("wrong-parties", "pool entry %s -> %s", e.Sender, e.ExternalRecipient)
		}
		return nil

	case "tochain":
		// a deposit on the source chain that is forwarded to another external chain: the destination chain's
		// rate applies to the converted amount, fee and commission come out of it
		for bridge.FromExt(c.SrcDec, new(big.Int).Add(amount, fee)).BitLen() > 200 {
			amount = new(big.Int).Rsh(amount, 32)
			fee = new(big.Int).Rsh(fee, 32)
			if amount.Sign() == 0 {
				amount = big.NewInt(1)
			}
		}
		ev := &mtypes.TransferToChainEvent{EventNonce: 1, ExternalCoinId: ids[src], Amount: sdk.NewIntFromBigInt(amount), Fee: sdk.NewIntFromBigInt(fee),
			Sender: sim.ExtUser(2).Hex(), ReceiverChainId: dst, ExternalReceiver: rcpt.Hex(), ExternalHeight: 10, TxHash: "0xabc"}
		any, _ := mtypes.PackEvent(ev)
		if r := h.Deliver(&mtypes.MsgSubmitExternalEvent{Event: any, Signer: sdk.AccAddress(sim.ValAddr(0)).String(), ChainId: src}); r.Err != nil {
			return pbt.Failf("harness", "claim rejected: %v", r.Err)
		}
		supBefore := h.Supply("hub")
		if err := h.End(); err != nil {
			return nil
		}
		hubAmt, hubFee := bridge.FromExt(c.SrcDec, amount), bridge.FromExt(c.SrcDec, fee)
		// holders are looked up by the event's sender and receiver (hex, 0x stripped)
		best2 := new(big.Int)
		if c.HolderForm != 2 && holderOfRcpt != nil {
			best2 = holderOfRcpt
		}
		comm := refCommission(c.Rate, tierOf(best2), hubAmt)
		pool := h.Pool(dst)
		rest := new(big.Int).Sub(hubAmt, comm)
		rec.NonTrivial = true
		if hubAmt.Sign() == 0 {
			// nothing was locked in hub units (truncation): nothing can be forwarded
			if len(pool) != 0 || h.Supply("hub").Cmp(supBefore) != 0 {
				return pbt.Failf("zero-deposit-forwarded", "a forwarded deposit worth 0 hub units left %d pool entries / changed supply", len(pool))
			}
			return nil
		}
		if rest.Cmp(hubFee) < 0 {
			if len(pool) != 0 || h.Supply("hub").Cmp(supBefore) != 0 {
				return pbt.Failf("underfunded-transfer-applied", "cross-chain transfer of %s with fee %s (commission %s) cannot pay its fee but left %d pool entries / changed supply", hubAmt, hubFee, comm, len(pool))
			}
			return nil
		}
		if len(pool) != 1 {
			return pbt.Failf("pool-entry-count", "%d pool entries on %s after one forwarded deposit (amount %s, fee %s, commission %s)", len(pool), dst, hubAmt, hubFee, comm)
		}
		e := pool[0]
		wantTok := bridge.ToExt(c.DstDec, new(big.Int).Sub(rest, hubFee))
		if e.ValCommission.Amount.BigInt().Cmp(bridge.ToExt(c.DstDec, refCommission(c.Rate, 0, hubAmt))) > 0 {
			return pbt.Failf("commission-above-rate", "forwarded deposit charged commission %s, the destination token's rate %s allows at most %s", e.ValCommission.Amount, c.Rate, bridge.ToExt(c.DstDec, refCommission(c.Rate, 0, hubAmt)))
		}
		if e.ValCommission.Amount.BigInt().Cmp(bridge.ToExt(c.DstDec, comm)) != 0 || e.Token.Amount.BigInt().Cmp(wantTok) != 0 || e.Fee.Amount.BigInt().Cmp(bridge.ToExt(c.DstDec, hubFee)) != 0 {
			return pbt.Failf("forwarded-amounts-not-exact", "forwarded deposit of %s (fee %s) scheduled amount %s fee %s commission %s; expected %s / %s / %s", hubAmt, hubFee, e.Token.Amount, e.Fee.Amount, e.ValCommission.Amount, wantTok, bridge.ToExt(c.DstDec, hubFee), bridge.ToExt(c.DstDec, comm))
		}
		if e.ExternalRecipient != rcpt.Hex() || e.RefundChainId != src || e.RefundAddress != sim.ExtUser(2).Hex() {
			return pbt.Failf("wrong-parties", "forwarded deposit recorded as to=%s refund=%s@%s", e.ExternalRecipient, e.RefundAddress, e.RefundChainId)
		}
		return nil

	case "deposit", "tohub":
		// values that leave the 256-bit range in hub units belong to C05; stay below here: the locked value is below 2^255,
		// what circulates already (the sender's 2^254 at most, transit dust) keeps the supply below 2^256 - everything up
		// to there must be credited exactly
		for bridge.FromExt(c.SrcDec, new(big.Int).Add(amount, fee)).BitLen() > 255 {
			amount = new(big.Int).Rsh(amount, 32)
			fee = new(big.Int).Rsh(fee, 32)
			if amount.Sign() == 0 {
				amount = big.NewInt(1)
			}
		}
		var ev mtypes.ExternalEvent
		to := sim.UserAddr(1)
		if c.Kind == "deposit" {
			ev = &mtypes.SendToHubEvent{EventNonce: 1, ExternalCoinId: ids[src], Amount: sdk.NewIntFromBigInt(amount), Sender: sim.ExtUser(2).Hex(),
				CosmosReceiver: to.String(), ExternalHeight: 10, TxHash: "0xabc"}
		} else {
			ev = &mtypes.TransferToChainEvent{EventNonce: 1, ExternalCoinId: ids[src], Amount: sdk.NewIntFromBigInt(amount), Fee: sdk.NewIntFromBigInt(fee),
				Sender: sim.ExtUser(2).Hex(), ReceiverChainId: "hub", ExternalReceiver: bridge.HubHex(to), ExternalHeight: 10, TxHash: "0xabc"}
		}
		any, _ := mtypes.PackEvent(ev)
		r := h.Deliver(&mtypes.MsgSubmitExternalEvent{Event: any, Signer: sdk.AccAddress(sim.ValAddr(0)).String(), ChainId: src})
		if r.Err != nil {
			return pbt.Failf("harness", "claim rejected: %v", r.Err)
		}
		supBefore := h.Supply("hub")
		if err := h.End(); err != nil {
			return nil // C05's subject
		}
		want := bridge.FromExt(c.SrcDec, amount)
		got := h.Balance(to, "hub")
		rec.NonTrivial = c.SrcDec != 18 && new(big.Int).Mod(new(big.Int).Mul(amount, pow10(18)), pow10(c.SrcDec)).Sign() != 0 || (c.Kind == "tohub" && fee.Sign() > 0)
		if got.Cmp(want) != 0 {
			key := "deposit-credit-not-exact"
			if c.Kind == "tohub" && got.Cmp(bridge.FromExt(c.SrcDec, new(big.Int).Add(amount, fee))) == 0 {
				key = "transfer-to-hub-credits-amount-plus-fee"
			}
			return pbt.Failf(key, "%s of %s external units (decimals %d, fee field %s) credited %s, locked value is %s", c.Kind, amount, c.SrcDec, fee, got, want)
		}
		if minted := new(big.Int).Sub(h.Supply("hub"), supBefore); minted.Cmp(want) != 0 {
			return pbt.Failf("deposit-mint-not-exact", "supply grew by %s for a locked value of %s", minted, want)
		}
		return nil
	}
	return nil
}

func checkC11() *pbt.Check {
	return &pbt.Check{
		ID:          "C11",
		Rule:        "single-message experiments: withdrawal requests (amounts/fees 1..2^255 biased to powers of ten and two, decimals 0..24, rates with 18 fractional digits, holder values at tier boundaries +-1 in three spellings, exact/insufficient balances, wrong or unknown denoms) and deposits (SendToHub, TransferToChain->hub) judged by exact big-integer arithmetic; non-trivial = a request that must fail, or a holder value within 1 unit of a tier, or a conversion that truncates, or a deposit with a fee field; distinct = distinct case JSON",
		Gen:         genAmtCase,
		New:         func() interface{} { return &AmtCase{} },
		Run:         runAmtCase,
		Assumptions: []string{"holder lookups: sender by bech32 string, recipient by hex without 0x, case-insensitive; a holder-list entry written with a 0x prefix never matches (as x/oracle GetHolderValue and GetCommissionForHolder behave)"},
	}
}

func TestC11(t *testing.T) { checkC11().Main(t) }
