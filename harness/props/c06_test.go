package props

import (
	"crypto/sha256"
	"encoding/hex"
	"fmt"
	"sort"
	"testing"

	sdk "github.com/cosmos/cosmos-sdk/types"
	"pgregory.net/rapid"

	"verifharness/bridge"
	"verifharness/pbt"
	"verifharness/sim"
)

// recorder logs, per block boundary, the hash of all module state and of the
// ABCI events emitted in the block.
type recorder struct {
	log        []string
	multiToken int
}

func eventsDigest(evs []sdk.Event) string {
	h := sha256.New()
	for _, e := range evs {
		fmt.Fprintf(h, "%s{", e.Type)
		for _, a := range e.Attributes {
			fmt.Fprintf(h, "%d:%s=%d:%s;", len(a.Key), a.Key, len(a.Value), a.Value)
		}
		fmt.Fprint(h, "}")
	}
	return hex.EncodeToString(h.Sum(nil)[:8])
}

func (r *recorder) Step(it *bridge.Interp, st *bridge.StepInfo) {
	if st.Phase == "end" || st.Phase == "begin" {
		r.log = append(r.log, fmt.Sprintf("%d/%s h=%d state=%s events=%s(%d)", st.Idx, st.Phase, it.Height, it.H.StateHash()[:16], eventsDigest(it.H.Events), len(it.H.Events)))
	}
	if st.Phase == "begin" && it.Height%2 == 0 {
		for _, ch := range bridge.ExtChains {
			toks := map[string]bool{}
			for _, e := range st.Pre.Chains[ch].Pool {
				toks[e.Token.ExternalTokenId] = true
			}
			if len(toks) >= 2 {
				r.multiToken++
			}
		}
	}
}

func c06Opts() bridge.GenOpts {
	o := poolOpts
	o.Bursts = false
	o.MaxVals = 5
	o.Denoms = 3
	o.Holders = true
	o.Weights = map[string]int{"oprice": 8, "oholders": 5, "block": 30, "deposit": 8, "transfer": 8, "xround": 6, "xexpire": 3}
	return o
}

// DetCase is either a whole-bridge history or an attestation history (late joiners, conflicting claims).
type DetCase struct {
	B *bridge.Case `json:"bridge,omitempty"`
	A *AttCase     `json:"att,omitempty"`
}

func runAttDet(c *AttCase, runs int, rec *pbt.Rec) *pbt.Failure {
	var first []string
	for r := 0; r < runs; r++ {
		var log []string
		obs := func(h *sim.Hub, what string) {
			if what == "end" {
				log = append(log, fmt.Sprintf("end h=%d state=%s events=%s", h.Height, h.StateHash()[:16], eventsDigest(h.Events)))
			} else {
				log = append(log, what)
			}
		}
		sub := &pbt.Rec{}
		sim.DefaultSpec = r % 4
		runAttCaseObs("C06", obs)(c, sub)
		sim.DefaultSpec = 0
		if r == 0 {
			first = log
			rec.NonTrivial = sub.NonTrivial || len(c.Vals) >= 3
			rec.Label("attestation-history")
			continue
		}
		n := len(first)
		if len(log) < n {
			n = len(log)
		}
		for i := 0; i < n; i++ {
			if first[i] != log[i] {
				return pbt.Failf("nondeterministic-state", "run 0 and run %d of the same claim history diverge at observation #%d:\n  %s\n  %s", r, i, first[i], log[i])
			}
		}
		if len(first) != len(log) {
			return pbt.Failf("nondeterministic-outcome", "run 0 made %d observations, run %d made %d", len(first), r, len(log))
		}
	}
	return nil
}

func TestC06(t *testing.T) {
	const runs = 4
	(&pbt.Check{
		ID:   "C06",
		Rule: "whole-bridge histories (3 of 4 cases; the rest are claim histories with late joiners and conflicting claims, run 6 times) with several tokens per pool, oracle price and holder claims of every validator, cross-chain transfers and executions; each history is executed in 4 fresh instances in one process (Go re-randomises every map range; instance 1 additionally dry-runs every transaction and a token-list proposal on contexts it throws away, instance 2 rebuilds all keepers over the same stores every third block, instance 3 does both) and state hash + ABCI event digest are compared after every Begin/EndBlock; non-trivial = a history in which a map with >=2 keys was ranged (>=2 tokens unbatched at an even height, or an oracle epoch processed with >=2 claimers); distinct = distinct case JSON",
		Gen: func(t *rapid.T) interface{} {
			if rapid.IntRange(0, 3).Draw(t, "family") == 0 {
				return &DetCase{A: genAttCase(t).(*AttCase)}
			}
			return &DetCase{B: bridge.GenCase(c06Opts())(t).(*bridge.Case)}
		},
		New: func() interface{} { return &DetCase{} },
		Run: func(ci interface{}, rec *pbt.Rec) *pbt.Failure {
			dc := ci.(*DetCase)
			if dc.A != nil {
				return runAttDet(dc.A, 6, rec)
			}
			c := dc.B
			var first *recorder
			var firstKey string
			for r := 0; r < runs; r++ {
				rc := &recorder{}
				// run 0 only executes the blocks; run 1 also executes things on contexts it throws away, run 2 is restarted every
				// third block, run 3 does both (sim.Hub.Spec)
				sim.DefaultSpec = r % 4
				it := bridge.NewInterp(c, "C06", rc)
				sim.DefaultSpec = 0
				it.NoHash = true
				it.Run()
				if r == 0 {
					first, firstKey = rc, it.FailedKey()
					rec.NonTrivial = rc.multiToken > 0 || (len(c.Cfg.Vals) >= 2 && it.Stats["oprice-ok"] >= 2 && it.Height >= 5)
					if rc.multiToken > 0 {
						rec.Label("multi-token-autobatch")
					}
					labelStats(rec, it, "oprice-ok", "oholders-ok", "exec-batch")
					continue
				}
				n := len(first.log)
				if len(rc.log) < n {
					n = len(rc.log)
				}
				for i := 0; i < n; i++ {
					if first.log[i] != rc.log[i] {
						return pbt.Failf("nondeterministic-state", "run 0 and run %d of the same history diverge at block boundary #%d:\n  %s\n  %s", r, i, first.log[i], rc.log[i])
					}
				}
				if len(first.log) != len(rc.log) || firstKey != it.FailedKey() {
					return pbt.Failf("nondeterministic-outcome", "run 0 ended after %d boundaries (%s), run %d after %d (%s)", len(first.log), firstKey, r, len(rc.log), it.FailedKey())
				}
			}
			return nil
		},
		Assumptions: []string{"map-order nondeterminism is provoked by Go's per-range randomisation within one process; goroutine scheduling is not controlled", "thorough additionally compares per-block hashes across OS processes (shards replay a common set of seeds)"},
	}).Main(t)
}

var _ = sort.Strings
