package props

import (
	"fmt"
	"math/big"

	"verifharness/pbt"
)

// firstFail implements first-divergence attribution: a case stops at the first
// assertion that fails, whichever property it belongs to; the check for
// property P reports it only when the assertion is P's.
type firstFail struct {
	want string
	f    *pbt.Failure
	prop string
	// lenient: an assertion owned by another property does not end the history; fail returns false and the caller adopts
	// what the code did, so that the wanted property's own assertions still get to judge the rest of the history.
	lenient bool
	foreign *pbt.Failure
}

func (a *firstFail) failed() bool { return a.prop != "" }

// fail records a failed assertion and reports whether the history must stop.
func (a *firstFail) fail(prop, key, format string, args ...interface{}) bool {
	if a.prop != "" {
		return true
	}
	if a.lenient && prop != a.want && prop != "C05" && prop != "harness" {
		if a.foreign == nil {
			a.foreign = pbt.Failf(key, format, args...)
		}
		return false
	}
	a.prop = prop
	a.f = pbt.Failf(key, format, args...)
	return true
}

// stop ends the history without a verdict (the model cannot follow the code any further).
func (a *firstFail) stop() {
	if a.prop == "" {
		a.prop = "stopped"
	}
}

func (a *firstFail) result() *pbt.Failure {
	if a.prop == a.want {
		return a.f
	}
	return nil
}

func bi(s string) *big.Int {
	x, ok := new(big.Int).SetString(s, 10)
	if !ok {
		panic("bad int " + s)
	}
	return x
}

func pow10(n uint64) *big.Int {
	return new(big.Int).Exp(big.NewInt(10), new(big.Int).SetUint64(n), nil)
}

var _ = fmt.Sprintf
