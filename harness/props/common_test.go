package props

import (
	"fmt"
	"math/big"

	"verifharness/pbt"
)

// firstFail implements first-divergence attribution: a case stops at the first
// assertion that fails, whichever property it belongs to; the check for
// property P reports it only when the assertion is P's.
type firstFail struct {
	want string
	f    *pbt.Failure
	prop string
}

func (a *firstFail) failed() bool { return a.prop != "" }

func (a *firstFail) fail(prop, key, format string, args ...interface{}) {
	if a.prop != "" {
		return
	}
	a.prop = prop
	a.f = pbt.Failf(key, format, args...)
}

func (a *firstFail) result() *pbt.Failure {
	if a.prop == a.want {
		return a.f
	}
	return nil
}

func bi(s string) *big.Int {
	x, ok := new(big.Int).SetString(s, 10)
	if !ok {
		panic("bad int " + s)
	}
	return x
}

func pow10(n uint64) *big.Int {
	return new(big.Int).Exp(big.NewInt(10), new(big.Int).SetUint64(n), nil)
}

var _ = fmt.Sprintf
