package props

import (
	"bytes"
	"fmt"
	"sort"
	"testing"

	ethcommon "github.com/ethereum/go-ethereum/common"
	ethcrypto "github.com/ethereum/go-ethereum/crypto"

	sdk "github.com/cosmos/cosmos-sdk/types"
	authtypes "github.com/cosmos/cosmos-sdk/x/auth/types"
	banktypes "github.com/cosmos/cosmos-sdk/x/bank/types"

	"github.com/MinterTeam/mhub2/module/x/mhub2"
	mtypes "github.com/MinterTeam/mhub2/module/x/mhub2/types"
	"github.com/MinterTeam/mhub2/module/x/oracle"
	otypes "github.com/MinterTeam/mhub2/module/x/oracle/types"

	"verifharness/bridge"
	"verifharness/pbt"
	"verifharness/sim"
)

// C15: export -> JSON -> InitGenesis on a fresh instance must preserve the bridge state.

var mhub2Prefixes = map[byte]string{
	mtypes.ValidatorExternalAddressKey: "ValidatorExternalAddress", mtypes.OrchestratorValidatorAddressKey: "OrchestratorValidatorAddress",
	mtypes.ExternalOrchestratorAddressKey: "ExternalOrchestratorAddress", mtypes.ExternalSignatureKey: "ExternalSignature(confirmations)",
	mtypes.ExternalEventVoteRecordKey: "ExternalEventVoteRecord", mtypes.OutgoingTxKey: "OutgoingTx", mtypes.SendToExternalKey: "SendToExternal(pool)",
	mtypes.LastEventNonceByValidatorKey: "LastEventNonceByValidator", mtypes.LastObservedEventNonceKey: "LastObservedEventNonce",
	mtypes.LatestSignerSetTxNonceKey: "LatestSignerSetTxNonce", mtypes.LastSlashedOutgoingTxBlockKey: "LastSlashedOutgoingTxBlock",
	mtypes.LastSlashedSignerSetTxNonceKey: "LastSlashedSignerSetTxNonce", mtypes.LastOutgoingBatchNonceKey: "LastOutgoingBatchNonce",
	mtypes.OutgoingSequence: "OutgoingSequence", mtypes.LastSendToExternalIDKey: "LastSendToExternalID", mtypes.LastExternalBlockHeightKey: "LastExternalBlockHeight",
	mtypes.TokenInfosKey: "TokenInfos", mtypes.LastUnBondingBlockHeightKey: "LastUnBondingBlockHeight", mtypes.LastObservedSignerSetKey: "LastObservedSignerSet",
	mtypes.TxStatusKey: "TxStatus", mtypes.TxFeeRecordKey: "TxFeeRecord",
}

var oraclePrefixes = map[byte]string{0x1: "oracle.Claims", 0x2: "oracle.Attestations", 0x3: "oracle.CurrentEpoch", 0x4: "oracle.Prices", 0x5: "oracle.Holders"}

func byPrefix(kvs []sim.KV) map[byte]map[string]string {
	out := map[byte]map[string]string{}
	for _, kv := range kvs {
		if len(kv.K) == 0 {
			continue
		}
		if out[kv.K[0]] == nil {
			out[kv.K[0]] = map[string]string{}
		}
		out[kv.K[0]][string(kv.K)] = string(kv.V)
	}
	return out
}

func restart(old *sim.Hub) (*sim.Hub, error) {
	ctx := old.Ctx()
	mj := mhub2.NewAppModule(old.K, old.Bank).ExportGenesis(ctx, old.Cdc)
	oj := oracle.NewAppModule(old.O, old.Bank).ExportGenesis(ctx, old.Cdc)
	nh := sim.NewBareHub(old.Cfg)
	nh.Height, nh.Time = old.Height, old.Time
	for i, v := range old.Staking.Vals {
		*nh.Staking.Vals[i] = *v
	}
	// InitChain runs the genesis at block height 0 (a chain restarted from a zero-height export)
	gctx := nh.InitBase().WithBlockHeight(0)
	nh.CopyStoreFrom(old, authtypes.StoreKey)
	nh.CopyStoreFrom(old, banktypes.StoreKey)
	var err error
	func() {
		defer func() {
			if r := recover(); r != nil {
				err = fmt.Errorf("InitGenesis panicked: %v", r)
			}
		}()
		mhub2.NewAppModule(nh.K, nh.Bank).InitGenesis(gctx, nh.Cdc, mj)
		oracle.NewAppModule(nh.O, nh.Bank).InitGenesis(gctx, nh.Cdc, oj)
	}()
	return nh, err
}

func c15Opts() bridge.GenOpts {
	o := poolOpts
	o.Bursts = false
	o.MaxVals = 4
	o.Holders = true
	o.MinOps, o.MaxOps = 10, 50
	o.Rotations = true
	o.BlockTimes = true
	o.ParamSalt = true
	o.MaybeNoPrices = true // now and then the export holds a holders list but no prices
	o.Weights = map[string]int{"sign": 6, "oprice": 4, "oholders": 3, "relay": 8, "deposit": 8, "transfer": 8, "ss0": 4}
	return o
}

func TestC15(t *testing.T) {
	open := pbt.OpenKeys("C15")
	(&pbt.Check{
		ID:   "C15",
		Rule: "whole-bridge histories (pool entries, batches, confirmations, votes in progress, oracle claims) cut at their last block boundary; module state is exported through the AppModule JSON path and imported into a fresh instance; every store prefix of x/mhub2 and x/oracle and the params are compared, then the restarted chain must process one more block; non-trivial = export taken with a non-empty pool or >=1 batch, >=1 confirmation and a vote record; distinct = distinct case JSON",
		Gen:  bridge.GenCase(c15Opts()),
		New:  func() interface{} { return &bridge.Case{} },
		Run: func(ci interface{}, rec *pbt.Rec) *pbt.Failure {
			c := ci.(*bridge.Case)
			it := bridge.NewInterp(c, "C15")
			it.NoHash = true
			// the chain was itself initialised from a genesis (the one the configuration describes): what it exports right
			// away must be that genesis again, as far as params and the token list go
			{
				given := it.H.GenesisState()
				var got mtypes.GenesisState
				it.H.Cdc.MustUnmarshalJSON(mhub2.NewAppModule(it.H.K, it.H.Bank).ExportGenesis(it.H.GenesisCtx(), it.H.Cdc), &got)
				if got.Params == nil || !got.Params.Equal(*given.Params) {
					return pbt.Failf("state-not-preserved:Params", "a chain initialised from a genesis exports other params than it was given")
				}
				if got.TokenInfos == nil || len(got.TokenInfos.TokenInfos) != len(given.TokenInfos.TokenInfos) {
					return pbt.Failf("state-not-preserved:TokenInfos", "a chain initialised from a genesis with %d tokens exports another token list", len(given.TokenInfos.TokenInfos))
				}
				for i, want := range given.TokenInfos.TokenInfos {
					if g := got.TokenInfos.TokenInfos[i]; g.String() != want.String() {
						return pbt.Failf("state-not-preserved:TokenInfos", "token %d was given to the genesis as %v and is exported as %v", want.Id, want, g)
					}
				}
			}
			it.Run()
			if it.Failed() {
				rec.Label("stopped-by:" + it.FailedKey())
				return nil
			}
			old := it.H
			// key rotations after the history: the registry then holds current and retired entries
			var retired [][]byte
			if len(c.Rot) > 0 || len(c.Gone) > 0 {
				if err := old.Begin(old.Height+1, old.Time+5); err != nil {
					rec.Label("stopped-by:rotation-block")
					return nil
				}
				gen := map[string]int{}
				for _, r := range c.Rot {
					v := r.Val % len(old.Staking.Vals)
					ch := []string{"ethereum", "bsc", "minter"}[r.Chain%3]
					ctx := old.Ctx()
					oldEth := old.K.GetValidatorExternalAddress(ctx, mtypes.ChainID(ch), sim.ValAddr(v))
					oldOrch := old.K.GetExternalOrchestratorAddress(ctx, mtypes.ChainID(ch), oldEth)
					k := fmt.Sprintf("%s|%d", ch, v)
					gen[k]++
					acc := old.Acc.GetAccount(ctx, sdk.AccAddress(sim.ValAddr(v)))
					if acc == nil {
						acc = old.Acc.NewAccountWithAddress(ctx, sdk.AccAddress(sim.ValAddr(v)))
					}
					seq := acc.GetSequence()
					bz := old.Cdc.MustMarshal(&mtypes.DelegateKeysSignMsg{ValidatorAddress: sim.ValAddr(v).String(), Nonce: seq})
					sg, _ := mtypes.NewEthereumSignature(ethcrypto.Keccak256Hash(bz).Bytes(), sim.EthKey(v, ch, gen[k]))
					acc.SetSequence(seq + 1)
					old.Acc.SetAccount(ctx, acc)
					no := sim.OrchAddr(2000 + 100*v + 10*r.Orch + gen[k])
					res := old.Deliver(&mtypes.MsgDelegateKeys{ValidatorAddress: sim.ValAddr(v).String(), OrchestratorAddress: no.String(), ExternalAddress: sim.EthAddr(v, ch, gen[k]).Hex(), EthSignature: sg, ChainId: ch})
					if res.Err == nil && (oldEth != ethcommon.Address{}) {
						retired = append(retired, oldEth.Bytes(), []byte(oldOrch))
						rec.Label("with-rotated-keys")
					}
				}
				for _, g := range c.Gone {
					v := g % len(old.Staking.Vals)
					if v == 0 {
						continue
					}
					old.QueueStaking(func(s *sim.SimStaking) { s.Vals[v].Removed, s.Vals[v].Bonded = true, false })
					rec.Label("with-validator-gone-from-staking")
				}
				if err := old.End(); err != nil {
					rec.Label("stopped-by:rotation-block")
					return nil
				}
			}
			isRetired := func(k string) bool {
				for _, r := range retired {
					if len(r) > 0 && bytes.Contains([]byte(k), r) {
						return true
					}
				}
				return false
			}
			nh, err := restart(old)
			if err != nil {
				return pbt.Failf("import-fails", "%v", err)
			}
			a, b := byPrefix(old.Dump(mtypes.StoreKey)), byPrefix(nh.Dump(mtypes.StoreKey))
			oa, ob := byPrefix(old.Dump(otypes.StoreKey)), byPrefix(nh.Dump(otypes.StoreKey))
			rec.NonTrivial = (len(a[mtypes.SendToExternalKey]) > 0 || len(a[mtypes.OutgoingTxKey]) > 3) && len(a[mtypes.ExternalSignatureKey]) > 0 && len(a[mtypes.ExternalEventVoteRecordKey]) > 0
			if len(a[mtypes.ExternalSignatureKey]) > 0 {
				rec.Label("with-confirmations")
			}
			if len(a[mtypes.SendToExternalKey]) > 0 {
				rec.Label("with-pool")
			}
			if c.Lazy > 0 {
				rec.Label("with-lagging-validator")
			}
			var diffs []*pbt.Failure
			cmp := func(names map[byte]string, x, y map[byte]map[string]string) {
				var ps []int
				for p := range names {
					ps = append(ps, int(p))
				}
				sort.Ints(ps)
				for _, pi := range ps {
					p := byte(pi)
					for k, v := range x[p] {
						w, ok := y[p][k]
						if !ok {
							if (p == mtypes.OrchestratorValidatorAddressKey || p == mtypes.ExternalOrchestratorAddressKey) && isRetired(k) {
								// entry of a rotated-away key: still honoured by the running chain (a retired orchestrator keeps voting), not exported
								diffs = append(diffs, pbt.Failf("state-not-preserved:retired-delegate-keys", "%s: key %x (entry of a retired orchestrator / external key, still honoured before export) is missing after import", names[p], k))
								continue
							}
							diffs = append(diffs, pbt.Failf("state-not-preserved:"+names[p], "%s: key %x present before export is missing after import", names[p], k))
							break
						}
						if w != v {
							key := "state-not-preserved:" + names[p]
							if p == mtypes.LastExternalBlockHeightKey {
								// {external height, hub height at which it was observed}: which half is lost?
								var a, b mtypes.LatestBlockHeight
								if old.Cdc.Unmarshal([]byte(v), &a) == nil && old.Cdc.Unmarshal([]byte(w), &b) == nil && a.ExternalHeight == b.ExternalHeight {
									key += ".cosmos-height"
								}
							}
							diffs = append(diffs, pbt.Failf(key, "%s: key %x has value %x before export and %x after import", names[p], k, v, w))
							break
						}
					}
					for k := range y[p] {
						if _, ok := x[p][k]; !ok {
							diffs = append(diffs, pbt.Failf("state-invented:"+names[p], "%s: key %x appears only after import", names[p], k))
							break
						}
					}
				}
			}
			cmp(mhub2Prefixes, a, b)
			cmp(oraclePrefixes, oa, ob)
			// a second restart straight from the restarted chain: what the first import wrote must export again
			if nh2, err2 := restart(nh); err2 != nil {
				return pbt.Failf("import-fails", "second restart: %v", err2)
			} else {
				first := len(diffs)
				cmp(mhub2Prefixes, b, byPrefix(nh2.Dump(mtypes.StoreKey)))
				cmp(oraclePrefixes, ob, byPrefix(nh2.Dump(otypes.StoreKey)))
				for _, f := range diffs[first:] {
					f.Key += "(second-restart)"
					f.Msg = "second restart: " + f.Msg
				}
			}
			for p := range a {
				if _, known := mhub2Prefixes[p]; !known {
					return pbt.Failf("harness", "unknown mhub2 store prefix %d", p)
				}
			}
			pa, pb := old.K.GetParams(old.Ctx()), nh.K.GetParams(nh.Ctx())
			if !pa.Equal(pb) {
				diffs = append(diffs, pbt.Failf("state-not-preserved:Params", "params differ after import"))
			}
			// a recorded loss must not hide a new one: report an unrecorded difference first
			for _, f := range diffs {
				if !open[f.Key] {
					return f
				}
				rec.AlsoKnown = append(rec.AlsoKnown, f.Key)
			}
			// the restarted chain must be able to go on: one block with a claim through every orchestrator and a
			// send by every user. (Its outcomes are not compared with the original: with every store prefix compared
			// above, a behavioural difference can only come from a difference already reported or recorded.)
			var halt string
			func() {
				defer func() {
					if r := recover(); r != nil {
						halt = fmt.Sprintf("panic: %v", r)
					}
				}()
				h := nh
				if err := h.Begin(h.Height+1, h.Time+5); err != nil {
					halt = "begin: " + err.Error()
					return
				}
				for _, ch := range []string{"ethereum", "bsc"} {
					tok := h.TokenByDenom(ch, "hub")
					if tok == nil {
						continue
					}
					n := h.K.GetLastObservedEventNonce(h.Ctx(), mtypes.ChainID(ch)) + 1
					for vi, v := range h.Staking.Vals {
						if !v.Bonded {
							continue
						}
						any, _ := mtypes.PackEvent(&mtypes.SendToHubEvent{EventNonce: n, ExternalCoinId: tok.ExtId, Amount: sdk.NewInt(12345), Sender: sim.ExtUser(1).Hex(),
							CosmosReceiver: sim.UserAddr(2).String(), ExternalHeight: 999999, TxHash: "0xc15"})
						h.Deliver(&mtypes.MsgSubmitExternalEvent{Event: any, Signer: sim.OrchAddr(vi).String(), ChainId: ch})
					}
				}
				for u := 0; u < 3; u++ {
					h.Deliver(mtypes.NewMsgSendToExternal("minter", sim.UserAddr(u), sim.ExtUser(1).Hex(), sdk.NewInt64Coin("hub", 1000), sdk.NewInt64Coin("hub", 10)))
				}
				if err := h.End(); err != nil {
					halt = "end: " + err.Error()
				}
			}()
			if halt != "" {
				return pbt.Failf("restarted-chain-halts", "the chain initialised from the export cannot process its next block: %s", halt)
			}
			if len(diffs) > 0 {
				return diffs[0]
			}
			return nil
		},
		Assumptions: []string{"auth and bank state is carried over verbatim (those modules' genesis is not under test); staking is the SimStaking double with identical content on both sides", "after the state comparison the restarted chain must process one further block (claims through every orchestrator, sends by every user) without halting; outcomes are not compared because every store prefix already is"},
	}).Main(t)
}
