package props

import (
	"bytes"
	"crypto/sha256"
	"encoding/binary"
	"encoding/hex"
	"fmt"
	"github.com/ethereum/go-ethereum/common"
	"math/big"
	"strings"
	"testing"

	codectypes "github.com/cosmos/cosmos-sdk/codec/types"
	sdk "github.com/cosmos/cosmos-sdk/types"
	authtypes "github.com/cosmos/cosmos-sdk/x/auth/types"
	banktypes "github.com/cosmos/cosmos-sdk/x/bank/types"
	"pgregory.net/rapid"

	mtypes "github.com/MinterTeam/mhub2/module/x/mhub2/types"
	otypes "github.com/MinterTeam/mhub2/module/x/oracle/types"

	"verifharness/bridge"
	"verifharness/pbt"
	"verifharness/sim"
)

// C14: two admissible events that differ in one effect-relevant field must get
// different claim identifiers. Relevance is not assumed: both events are
// applied on twin instances and must lead to different state.

type HashCase struct {
	Type   string `json:"type"`           // sendtohub | transfer | batch | call | signerset | boundary
	Chain  int    `json:"chain"`          // 0 ethereum, 1 bsc, 2 minter
	Field  int    `json:"field"`          // index into the type's mutator list
	Name   string `json:"name,omitempty"` // the mutator's name (recorded by the generator; decides when present, so that saved cases survive changes of the list)
	Seed   int    `json:"seed"`           // picks concrete values
	Prefix bool   `json:"prefix"`         // external sender spelled with 0x
}

var hashTypes = []string{"sendtohub", "transfer", "batch", "call", "signerset", "boundary", "boundary2", "crosstype"}

func genHashCase(t *rapid.T) interface{} {
	c := genHashCaseRaw(t)
	if c.Type != "boundary" && c.Type != "boundary2" && c.Type != "crosstype" {
		chain := []string{"ethereum", "bsc", "minter"}[c.Chain%3]
		if muts := mutatorsFor(c.Type, chain, nil); len(muts) > 0 {
			c.Name = muts[c.Field%len(muts)].name
		}
	}
	return c
}

func genHashCaseRaw(t *rapid.T) *HashCase {
	return &HashCase{
		Type:   hashTypes[rapid.IntRange(0, len(hashTypes)-1).Draw(t, "type")],
		Chain:  rapid.IntRange(0, 2).Draw(t, "chain"),
		Field:  rapid.IntRange(0, 23).Draw(t, "field"),
		Seed:   rapid.IntRange(0, 1000).Draw(t, "seed"),
		Prefix: rapid.Bool().Draw(t, "prefix"),
	}
}

var c14Tokens = []sim.TokenCfg{
	{Id: 1, Denom: "hub", Chain: "ethereum", ExtId: "0xA091Bb826756eA25114c512B916754b3fBCb4f63", Decimals: 18, Commission: "0.01"},
	{Id: 2, Denom: "hub", Chain: "bsc", ExtId: "0xf7413144696C5E5502307A8015c6359965CAA725", Decimals: 6, Commission: "0.01"},
	{Id: 3, Denom: "hub", Chain: "minter", ExtId: "1", Decimals: 18, Commission: "0.01"},
	{Id: 4, Denom: "usdt", Chain: "ethereum", ExtId: "0xdAC17F958D2ee523a2206206994597C13D831ec7", Decimals: 6, Commission: "0.02"},
	{Id: 5, Denom: "usdt", Chain: "bsc", ExtId: "0x55d398326f99059fF775485246999027B3197955", Decimals: 18, Commission: "0.02"},
	{Id: 6, Denom: "usdt", Chain: "minter", ExtId: "10", Decimals: 18, Commission: "0.02"},
}

type fixture struct {
	h     *sim.Hub
	batch map[string]*mtypes.BatchTx
}

// newFixture builds a hub with a pending batch on every chain, at the start of block 3.
func newFixture() *fixture {
	cfg := sim.Config{Tokens: c14Tokens,
		Vals:    []sim.ValCfg{{Power: 10, Bonded: true, Keys: []string{"ethereum", "bsc", "minter"}}, {Power: 7, Bonded: true, Keys: []string{"ethereum", "bsc", "minter"}}},
		Prices:  []sim.PriceCfg{{Name: "hub", Value: "1"}, {Name: "usdt", Value: "1"}, {Name: "eth", Value: "1000"}, {Name: "bnb", Value: "300"}},
		Holders: []sim.HolderCfg{{Addr: sim.ExtUser(2).Hex()[2:], Value: "32000000000000000000"}},
	}
	h := sim.NewHub(cfg)
	for _, d := range []string{"hub", "usdt"} {
		h.Fund(sim.UserAddr(0), d, new(big.Int).Lsh(big.NewInt(1), 100))
	}
	h.Begin(1, 1600000005)
	for _, ch := range bridge.ExtChains {
		h.Deliver(mtypes.NewMsgSendToExternal(mtypes.ChainID(ch), sim.UserAddr(0), sim.ExtUser(1).Hex(), sdk.NewInt64Coin("hub", 5_000_000_000_000), sdk.NewInt64Coin("hub", 70_000_000_000)))
		h.Deliver(mtypes.NewMsgSendToExternal(mtypes.ChainID(ch), sim.UserAddr(0), sim.ExtUser(2).Hex(), sdk.NewInt64Coin("hub", 6_000_000_000_000), sdk.NewInt64Coin("hub", 90_000_000_000)))
	}
	h.End()
	h.Begin(2, 1600000010) // even height: batches are built
	h.End()
	h.Begin(3, 1600000015)
	f := &fixture{h: h, batch: map[string]*mtypes.BatchTx{}}
	for _, ch := range bridge.ExtChains {
		if bs := h.Batches(ch); len(bs) > 0 {
			f.batch[ch] = bs[0]
		}
	}
	return f
}

// effect applies the event with quorum and returns a digest of everything except the vote records themselves.
func (f *fixture) effect(chain string, ev mtypes.ExternalEvent) (string, error) {
	any, err := mtypes.PackEvent(ev)
	if err != nil {
		return "", err
	}
	for vi := 0; vi < 2; vi++ {
		r := f.h.Deliver(&mtypes.MsgSubmitExternalEvent{Event: any, Signer: sdk.AccAddress(sim.ValAddr(vi)).String(), ChainId: chain})
		if r.Err != nil {
			return "", r.Err
		}
	}
	if err := f.h.End(); err != nil {
		return "", err
	}
	hs := sha256.New()
	for _, n := range []string{mtypes.StoreKey, otypes.StoreKey, banktypes.StoreKey, authtypes.StoreKey} {
		for _, kv := range f.h.Dump(n) {
			if n == mtypes.StoreKey && len(kv.K) > 0 && (kv.K[0] == mtypes.ExternalEventVoteRecordKey || kv.K[0] == mtypes.LastEventNonceByValidatorKey) {
				continue
			}
			hs.Write(kv.K)
			hs.Write([]byte{0})
			hs.Write(kv.V)
			hs.Write([]byte{1})
		}
	}
	return hex.EncodeToString(hs.Sum(nil)), nil
}

type mutator struct {
	name string
	f    func(e mtypes.ExternalEvent, seed int)
}

// mutPre: optional preparation of the base event (before it is cloned) for the mutator of that name.
var mutPre = map[string]func(e mtypes.ExternalEvent, seed int){
	"Sender.digit(no-0x)": func(e mtypes.ExternalEvent, s int) {
		switch x := e.(type) {
		case *mtypes.SendToHubEvent:
			x.Sender = zeroLedSender(s)
		case *mtypes.TransferToChainEvent:
			x.Sender = zeroLedSender(s)
		}
	},
}

// zeroLedSender returns an un-prefixed 40-digit sender that starts with zero nibbles or zero bytes (real addresses do,
// one in sixteen), and digitFlip the same address with one hex digit changed (last, first significant, or a middle one).
func zeroLedSender(seed int) string {
	return []string{
		"0a18c2b7e63fd05aa1b3c4d5e6f708192a3baac5",
		"00ab18c2b7e63fd05aa1b3c4d5e6f708192a3b17",
		"000000000000000000000000000000000000a1c5",
		"0000000a18c2b7e63fd05aa1b3c4d5e6f7081929",
		"7a18c2b7e63fd05aa1b3c4d5e6f708192a3baac5",
	}[seed%5]
}

func digitFlip(a string, seed int) string {
	pos := len(a) - 1
	switch (seed / 5) % 3 {
	case 1:
		pos = len(a) - 2
	case 2:
		pos = len(a) / 2
	}
	b := []byte(a)
	if b[pos] == '5' {
		b[pos] = '6'
	} else {
		b[pos] = '5'
	}
	return string(b)
}

// bumpInt adds a delta chosen by the seed: small ones and exact multiples of 2^32 / 2^64 / 2^128 / 2^192, the
// differences a fixed-width or truncating hash input would swallow.
func bumpInt(x sdk.Int, base int64, s int) sdk.Int {
	two := func(k uint, m int64) sdk.Int {
		return sdk.NewIntFromBigInt(new(big.Int).Mul(new(big.Int).Lsh(big.NewInt(1), k), big.NewInt(m)))
	}
	if s < 4 {
		return x.AddRaw(base + int64(s))
	}
	switch s % 8 {
	case 0:
		return x.Add(two(32, 1))
	case 1:
		return x.Add(two(64, 1))
	case 2:
		return x.Add(two(64, int64(2+s%5)))
	case 3:
		return x.Add(two(128, 1))
	case 4:
		return x.Add(two(192, int64(1+s%3)))
	}
	return x.AddRaw(base + int64(s))
}

func otherAddr(a string, seed int) string {
	b := sim.ExtUser(4 + seed%5).Hex()
	if !strings.HasPrefix(a, "0x") {
		b = b[2:]
	}
	if strings.EqualFold(a, b) {
		b = sim.ExtUser(9).Hex()
	}
	return b
}

func mutatorsFor(typ, chain string, fx *fixture) []mutator {
	tokOther := func(cur string) string {
		for _, t := range c14Tokens {
			if t.Chain == chain && t.ExtId != cur {
				return t.ExtId
			}
		}
		return cur
	}
	respell := func(a string, s int) string {
		if !strings.HasPrefix(a, "0x") || len(a) != 42 {
			return a
		}
		switch s % 3 {
		case 0:
			return strings.ToLower(a)
		case 1:
			return a[2:]
		}
		return "0x" + strings.ToUpper(a[2:])
	}
	switch typ {
	case "sendtohub":
		return []mutator{
			{"ExternalCoinId.spelling", func(e mtypes.ExternalEvent, s int) {
				x := e.(*mtypes.SendToHubEvent)
				x.ExternalCoinId = respell(x.ExternalCoinId, s)
			}},
			{"EventNonce", func(e mtypes.ExternalEvent, s int) { e.(*mtypes.SendToHubEvent).EventNonce += uint64(1 + s%3) }},
			{"ExternalCoinId", func(e mtypes.ExternalEvent, s int) {
				x := e.(*mtypes.SendToHubEvent)
				x.ExternalCoinId = tokOther(x.ExternalCoinId)
			}},
			{"Amount", func(e mtypes.ExternalEvent, s int) {
				x := e.(*mtypes.SendToHubEvent)
				x.Amount = bumpInt(x.Amount, 1, s)
			}},
			{"Amount.negated", func(e mtypes.ExternalEvent, s int) {
				// the same digits with a minus sign (admissible only if validation lets negative amounts through)
				x := e.(*mtypes.SendToHubEvent)
				x.Amount = x.Amount.Neg()
			}},
			{"Sender", func(e mtypes.ExternalEvent, s int) {
				x := e.(*mtypes.SendToHubEvent)
				x.Sender = otherAddr(x.Sender, s)
			}},
			{"Sender.digit(no-0x)", func(e mtypes.ExternalEvent, s int) {
				x := e.(*mtypes.SendToHubEvent)
				x.Sender = digitFlip(x.Sender, s)
			}},
			{"CosmosReceiver", func(e mtypes.ExternalEvent, s int) {
				e.(*mtypes.SendToHubEvent).CosmosReceiver = sim.UserAddr(2).String()
			}},
			{"ExternalHeight", func(e mtypes.ExternalEvent, s int) { e.(*mtypes.SendToHubEvent).ExternalHeight += uint64(1 + s) }},
			{"TxHash", func(e mtypes.ExternalEvent, s int) { e.(*mtypes.SendToHubEvent).TxHash = fmt.Sprintf("0x%064x", 777+s) }},
			{"CosmosReceiver.longer", func(e mtypes.ExternalEvent, s int) {
				// another account whose (longer) address ends in the same 20 bytes, or a shorter one that is its tail
				x := e.(*mtypes.SendToHubEvent)
				base, _ := sdk.AccAddressFromBech32(x.CosmosReceiver)
				if s%3 == 2 {
					x.CosmosReceiver = sdk.AccAddress(base[1:]).String()
					return
				}
				pre := make([]byte, 12)
				for i := range pre {
					pre[i] = byte(s + i + 1)
				}
				x.CosmosReceiver = sdk.AccAddress(append(pre, base...)).String()
			}},
		}
	case "transfer":
		return []mutator{
			{"ExternalCoinId.spelling", func(e mtypes.ExternalEvent, s int) {
				x := e.(*mtypes.TransferToChainEvent)
				x.ExternalCoinId = respell(x.ExternalCoinId, s)
			}},
			{"ExternalReceiver.spelling", func(e mtypes.ExternalEvent, s int) {
				x := e.(*mtypes.TransferToChainEvent)
				x.ExternalReceiver = respell(x.ExternalReceiver, s)
			}},
			{"EventNonce", func(e mtypes.ExternalEvent, s int) { e.(*mtypes.TransferToChainEvent).EventNonce += uint64(1 + s%3) }},
			{"ExternalCoinId", func(e mtypes.ExternalEvent, s int) {
				x := e.(*mtypes.TransferToChainEvent)
				x.ExternalCoinId = tokOther(x.ExternalCoinId)
			}},
			{"Amount", func(e mtypes.ExternalEvent, s int) {
				x := e.(*mtypes.TransferToChainEvent)
				x.Amount = bumpInt(x.Amount, 1000000, s)
			}},
			{"Fee", func(e mtypes.ExternalEvent, s int) {
				x := e.(*mtypes.TransferToChainEvent)
				x.Fee = bumpInt(x.Fee, 1000000, s)
			}},
			{"Amount.negated", func(e mtypes.ExternalEvent, s int) {
				x := e.(*mtypes.TransferToChainEvent)
				x.Amount = x.Amount.Neg()
			}},
			{"Sender", func(e mtypes.ExternalEvent, s int) {
				x := e.(*mtypes.TransferToChainEvent)
				x.Sender = otherAddr(x.Sender, s)
			}},
			{"Sender.digit(no-0x)", func(e mtypes.ExternalEvent, s int) {
				x := e.(*mtypes.TransferToChainEvent)
				x.Sender = digitFlip(x.Sender, s)
			}},
			{"ExternalReceiver", func(e mtypes.ExternalEvent, s int) {
				x := e.(*mtypes.TransferToChainEvent)
				if x.ReceiverChainId == "hub" {
					x.ExternalReceiver = bridge.HubHex(sim.UserAddr(2))
				} else {
					x.ExternalReceiver = otherAddr(x.ExternalReceiver, s)
				}
			}},
			{"ReceiverChainId", func(e mtypes.ExternalEvent, s int) {
				x := e.(*mtypes.TransferToChainEvent)
				for _, c := range []string{"ethereum", "bsc", "minter"} {
					if c != x.ReceiverChainId && c != chain {
						x.ReceiverChainId = c
						return
					}
				}
			}},
			{"ExternalHeight", func(e mtypes.ExternalEvent, s int) { e.(*mtypes.TransferToChainEvent).ExternalHeight += uint64(1 + s) }},
			{"TxHash", func(e mtypes.ExternalEvent, s int) {
				e.(*mtypes.TransferToChainEvent).TxHash = fmt.Sprintf("0x%064x", 777+s)
			}},
		}
	case "batch":
		return []mutator{
			{"ExternalCoinId.spelling", func(e mtypes.ExternalEvent, s int) {
				x := e.(*mtypes.BatchExecutedEvent)
				x.ExternalCoinId = respell(x.ExternalCoinId, s)
			}},
			{"EventNonce", func(e mtypes.ExternalEvent, s int) { e.(*mtypes.BatchExecutedEvent).EventNonce += uint64(1 + s%3) }},
			{"ExternalCoinId", func(e mtypes.ExternalEvent, s int) {
				x := e.(*mtypes.BatchExecutedEvent)
				x.ExternalCoinId = tokOther(x.ExternalCoinId)
			}},
			{"BatchNonce", func(e mtypes.ExternalEvent, s int) { e.(*mtypes.BatchExecutedEvent).BatchNonce += uint64(1 + s%3) }},
			{"ExternalHeight", func(e mtypes.ExternalEvent, s int) { e.(*mtypes.BatchExecutedEvent).ExternalHeight += uint64(1 + s) }},
			{"TxHash", func(e mtypes.ExternalEvent, s int) {
				e.(*mtypes.BatchExecutedEvent).TxHash = fmt.Sprintf("0x%064x", 777+s)
			}},
			{"FeePaid", func(e mtypes.ExternalEvent, s int) {
				x := e.(*mtypes.BatchExecutedEvent)
				x.FeePaid = bumpInt(x.FeePaid, 1000, s)
			}},
			{"FeePayer", func(e mtypes.ExternalEvent, s int) {
				x := e.(*mtypes.BatchExecutedEvent)
				x.FeePayer = otherAddr(x.FeePayer, s)
			}},
		}
	case "call":
		return []mutator{
			{"EventNonce", func(e mtypes.ExternalEvent, s int) {
				e.(*mtypes.ContractCallExecutedEvent).EventNonce += uint64(1 + s%3)
			}},
			{"InvalidationScope", func(e mtypes.ExternalEvent, s int) {
				x := e.(*mtypes.ContractCallExecutedEvent)
				x.InvalidationScope = append(append([]byte{}, x.InvalidationScope...), byte(s))
			}},
			{"InvalidationNonce", func(e mtypes.ExternalEvent, s int) {
				e.(*mtypes.ContractCallExecutedEvent).InvalidationNonce += uint64(1 + s)
			}},
			{"ExternalHeight", func(e mtypes.ExternalEvent, s int) {
				e.(*mtypes.ContractCallExecutedEvent).ExternalHeight += uint64(1 + s)
			}},
			{"TxHash", func(e mtypes.ExternalEvent, s int) {
				e.(*mtypes.ContractCallExecutedEvent).TxHash = fmt.Sprintf("0x%064x", 777+s)
			}},
			{"ReturnData", func(e mtypes.ExternalEvent, s int) {
				e.(*mtypes.ContractCallExecutedEvent).ReturnData = []byte{byte(s), 1}
			}},
		}
	case "signerset":
		return []mutator{
			{"EventNonce", func(e mtypes.ExternalEvent, s int) {
				e.(*mtypes.SignerSetTxExecutedEvent).EventNonce += uint64(1 + s%3)
			}},
			{"SignerSetTxNonce", func(e mtypes.ExternalEvent, s int) {
				e.(*mtypes.SignerSetTxExecutedEvent).SignerSetTxNonce += uint64(1 + s)
			}},
			{"ExternalHeight", func(e mtypes.ExternalEvent, s int) {
				e.(*mtypes.SignerSetTxExecutedEvent).ExternalHeight += uint64(1 + s)
			}},
			{"Members.address", func(e mtypes.ExternalEvent, s int) {
				x := e.(*mtypes.SignerSetTxExecutedEvent)
				x.Members[s%len(x.Members)].ExternalAddress = sim.ExtUser(8).Hex()
			}},
			{"Members.power", func(e mtypes.ExternalEvent, s int) {
				x := e.(*mtypes.SignerSetTxExecutedEvent)
				x.Members[s%len(x.Members)].Power += uint64(1 + s)
			}},
			{"Members.count", func(e mtypes.ExternalEvent, s int) {
				x := e.(*mtypes.SignerSetTxExecutedEvent)
				x.Members = x.Members[:len(x.Members)-1]
			}},
			{"TxHash", func(e mtypes.ExternalEvent, s int) {
				e.(*mtypes.SignerSetTxExecutedEvent).TxHash = fmt.Sprintf("0x%064x", 777+s)
			}},
			{"Members.repeated", func(e mtypes.ExternalEvent, s int) {
				// another member, listed twice (a combination rule in which equal entries cancel would not see it)
				x := e.(*mtypes.SignerSetTxExecutedEvent)
				m := &mtypes.ExternalSigner{Power: uint64(1000 + s), ExternalAddress: sim.ExtUser(7).Hex()}
				if s%2 == 1 {
					m = &mtypes.ExternalSigner{Power: x.Members[0].Power, ExternalAddress: x.Members[0].ExternalAddress}
				}
				x.Members = append(x.Members, m, &mtypes.ExternalSigner{Power: m.Power, ExternalAddress: m.ExternalAddress})
			}},
			{"Members.powerless", func(e mtypes.ExternalEvent, s int) {
				// one more member, with power 0 (what normalisation gives a validator below 2^-32 of the stake)
				x := e.(*mtypes.SignerSetTxExecutedEvent)
				x.Members = append(x.Members, &mtypes.ExternalSigner{Power: 0, ExternalAddress: sim.ExtUser(5 + s%3).Hex()})
			}},
		}
	}
	return nil
}

func baseEvent(typ, chain string, c *HashCase, fx *fixture) mtypes.ExternalEvent {
	tok := ""
	for _, t := range c14Tokens {
		if t.Chain == chain && t.Denom == "hub" {
			tok = t.ExtId
		}
	}
	sender := sim.ExtUser(1).Hex()
	if !c.Prefix {
		sender = sender[2:]
	}
	amt := sdk.NewInt(int64(2_000_000_000 + c.Seed))
	switch typ {
	case "sendtohub":
		return &mtypes.SendToHubEvent{EventNonce: 1, ExternalCoinId: tok, Amount: amt, Sender: sender, CosmosReceiver: sim.UserAddr(1).String(), ExternalHeight: 500, TxHash: fmt.Sprintf("0x%064x", 42)}
	case "transfer":
		dest := []string{"hub", "ethereum", "bsc", "minter"}[c.Seed%4]
		if dest == chain {
			dest = "hub"
		}
		rcv := sim.ExtUser(2).Hex()
		if dest == "hub" {
			rcv = bridge.HubHex(sim.UserAddr(1))
		}
		return &mtypes.TransferToChainEvent{EventNonce: 1, ExternalCoinId: tok, Amount: amt.MulRaw(1000), Fee: sdk.NewInt(int64(1_000_000 + c.Seed)), Sender: sender,
			ReceiverChainId: dest, ExternalReceiver: rcv, ExternalHeight: 500, TxHash: fmt.Sprintf("0x%064x", 42)}
	case "batch":
		b := fx.batch[chain]
		payer := sim.ExtUser(3).Hex()
		return &mtypes.BatchExecutedEvent{ExternalCoinId: b.ExternalTokenId, EventNonce: 1, ExternalHeight: 500, BatchNonce: b.BatchNonce, TxHash: fmt.Sprintf("0x%064x", 42),
			FeePaid: sdk.NewInt(int64(1000 + c.Seed)), FeePayer: payer}
	case "call":
		return &mtypes.ContractCallExecutedEvent{EventNonce: 1, InvalidationScope: []byte{1, 2, byte(c.Seed)}, InvalidationNonce: 3, ExternalHeight: 500, TxHash: fmt.Sprintf("0x%064x", 42)}
	case "signerset":
		return &mtypes.SignerSetTxExecutedEvent{EventNonce: 1, SignerSetTxNonce: 2, ExternalHeight: 500, TxHash: fmt.Sprintf("0x%064x", 42),
			Members: []*mtypes.ExternalSigner{{Power: 3000000000, ExternalAddress: sim.EthAddr(0, chain, 0).Hex()}, {Power: 1294967295, ExternalAddress: sim.EthAddr(1, chain, 0).Hex()}}}
	}
	return nil
}

func cloneEvent(e mtypes.ExternalEvent) mtypes.ExternalEvent {
	any, err := mtypes.PackEvent(e)
	if err != nil {
		panic(err)
	}
	cp := *any
	cp.Value = append([]byte{}, any.Value...)
	var out mtypes.ExternalEvent
	if err := sim.MakeCodec().UnpackAny(&codectypes.Any{TypeUrl: cp.TypeUrl, Value: cp.Value}, &out); err != nil {
		panic(err)
	}
	return out
}

func runHashCase(ci interface{}, rec *pbt.Rec) *pbt.Failure {
	c := ci.(*HashCase)
	chain := bridge.ExtChains[c.Chain%3]
	typ := c.Type
	var e1, e2 mtypes.ExternalEvent
	field := ""
	if typ == "boundary" {
		// adjacent variable-length fields: coin id "1" + amount 0x30.. versus coin id "10" + amount ..
		chain = "minter"
		rest := big.NewInt(int64(1_000_000 + c.Seed))
		shifted := new(big.Int).SetBytes(append([]byte{'0'}, rest.Bytes()...))
		sender := sim.ExtUser(1).Hex()
		if c.Field%2 == 0 {
			e1 = &mtypes.SendToHubEvent{EventNonce: 1, ExternalCoinId: "1", Amount: sdk.NewIntFromBigInt(shifted), Sender: sender, CosmosReceiver: sim.UserAddr(1).String(), ExternalHeight: 500, TxHash: "0x01"}
			e2 = &mtypes.SendToHubEvent{EventNonce: 1, ExternalCoinId: "10", Amount: sdk.NewIntFromBigInt(rest), Sender: sender, CosmosReceiver: sim.UserAddr(1).String(), ExternalHeight: 500, TxHash: "0x01"}
			field = "SendToHubEvent.boundary(ExternalCoinId|Amount)"
		} else {
			mk := func(coin string, a *big.Int) mtypes.ExternalEvent {
				return &mtypes.TransferToChainEvent{EventNonce: 1, ExternalCoinId: coin, Amount: sdk.NewIntFromBigInt(a), Fee: sdk.NewInt(1), Sender: sender, ReceiverChainId: "hub",
					ExternalReceiver: bridge.HubHex(sim.UserAddr(1)), ExternalHeight: 500, TxHash: "0x01"}
			}
			e1, e2 = mk("1", shifted), mk("10", rest)
			field = "TransferToChainEvent.boundary(ExternalCoinId|Amount)"
		}
	} else if typ == "crosstype" {
		// two events of different TYPE at the same nonce and height whose hashed byte strings can be made to coincide:
		// a contract-call report whose free-form scope / nonce imitate the fields of another event
		fx := newFixture()
		call := func(nonce uint64, b []byte, inv uint64, height uint64) mtypes.ExternalEvent {
			return &mtypes.ContractCallExecutedEvent{EventNonce: nonce, InvalidationScope: b, InvalidationNonce: inv, ExternalHeight: height, TxHash: fmt.Sprintf("0x%064x", 42)}
		}
		split := func(b []byte) ([]byte, uint64) {
			if len(b) < 9 {
				return nil, 0
			}
			return b[:len(b)-8], binary.BigEndian.Uint64(b[len(b)-8:])
		}
		cc := *c
		cc.Prefix = false
		switch c.Field % 3 {
		case 0:
			if fx.batch[chain] == nil {
				return nil
			}
			b := baseEvent("batch", chain, &cc, fx).(*mtypes.BatchExecutedEvent)
			e1, e2 = b, call(b.EventNonce, []byte(b.ExternalCoinId), b.BatchNonce, b.ExternalHeight)
			field = "type(BatchExecutedEvent|ContractCallExecutedEvent)"
		case 1:
			d := baseEvent("sendtohub", chain, &cc, fx).(*mtypes.SendToHubEvent)
			rcv, _ := sdk.AccAddressFromBech32(d.CosmosReceiver)
			raw := append(append(append([]byte(d.ExternalCoinId), d.Amount.BigInt().Bytes()...), common.Hex2Bytes(d.Sender)...), rcv.Bytes()...)
			scope, inv := split(raw)
			e1, e2 = d, call(d.EventNonce, scope, inv, d.ExternalHeight)
			field = "type(SendToHubEvent|ContractCallExecutedEvent)"
		default:
			d := baseEvent("transfer", chain, &cc, fx).(*mtypes.TransferToChainEvent)
			raw := append(append(append(append([]byte(d.ExternalCoinId), d.Amount.BigInt().Bytes()...), common.Hex2Bytes(d.Sender)...), []byte(d.ExternalReceiver)...), []byte(d.ReceiverChainId)...)
			scope, inv := split(raw)
			e1, e2 = d, call(d.EventNonce, scope, inv, d.ExternalHeight)
			field = "type(TransferToChainEvent|ContractCallExecutedEvent)"
		}
	} else if typ == "boundary2" {
		// two numeric fields next to each other: bytes moved from the end of the amount to the front of the fee
		// (amount 0x..0001, fee 0x02 versus amount 0x.., fee 0x0102); the amounts differ, so do the effects
		tail := big.NewInt(int64(1 + c.Seed%250))
		head := big.NewInt(int64(1_000_000 + c.Seed))
		fee := big.NewInt(int64(2 + c.Field%200))
		a1 := new(big.Int).SetBytes(append(append([]byte{}, head.Bytes()...), tail.Bytes()...))
		f2 := new(big.Int).SetBytes(append(append([]byte{}, tail.Bytes()...), fee.Bytes()...))
		mk := func(a, f *big.Int) mtypes.ExternalEvent {
			return &mtypes.TransferToChainEvent{EventNonce: 1, ExternalCoinId: c14Tokens[0].ExtId, Amount: sdk.NewIntFromBigInt(a), Fee: sdk.NewIntFromBigInt(f), Sender: sim.ExtUser(1).Hex(),
				ReceiverChainId: "hub", ExternalReceiver: bridge.HubHex(sim.UserAddr(1)), ExternalHeight: 500, TxHash: "0x01"}
		}
		chain = "ethereum"
		e1, e2 = mk(a1, fee), mk(head, f2)
		field = "TransferToChainEvent.boundary(Amount|Fee)"
		switch c.Field % 3 {
		case 1:
			// same net amount: (amount, fee) versus (amount + d, fee + d) - what is locked and minted differs
			d := big.NewInt(int64(200 + c.Seed))
			e1, e2 = mk(head, fee), mk(new(big.Int).Add(head, d), new(big.Int).Add(fee, d))
			field = "TransferToChainEvent.equal(Amount-Fee)"
		case 2:
			// amount and fee swapped (same absolute difference)
			e1, e2 = mk(head, fee), mk(fee, head)
			field = "TransferToChainEvent.swapped(Amount,Fee)"
		}
	} else {
		fx := newFixture()
		if typ == "batch" && fx.batch[chain] == nil {
			return nil
		}
		muts := mutatorsFor(typ, chain, fx)
		m := muts[c.Field%len(muts)]
		if c.Name != "" {
			found := false
			for _, x := range muts {
				if x.name == c.Name {
					m, found = x, true
				}
			}
			if !found {
				rec.Label("unknown-mutator-name")
				return nil
			}
		}
		e1 = baseEvent(typ, chain, c, fx)
		if pre := mutPre[m.name]; pre != nil {
			pre(e1, c.Seed)
		}
		e2 = cloneEvent(e1)
		m.f(e2, c.Seed)
		field = fmt.Sprintf("%T.%s", e1, m.name)
		field = strings.TrimPrefix(field, "*types.")
		if !c.Prefix && (m.name == "Sender") {
			field += "(no-0x)"
		}
	}
	rec.Label("type=" + typ)
	if p1, _ := mtypes.PackEvent(e1); p1 != nil {
		if p2, _ := mtypes.PackEvent(e2); p2 != nil && bytes.Equal(p1.Value, p2.Value) {
			rec.Label("mutation-is-identity")
			return nil
		}
	}
	if e1.Validate(mtypes.ChainID(chain)) != nil || e2.Validate(mtypes.ChainID(chain)) != nil {
		rec.Label("inadmissible")
		return nil
	}
	// relevance: do the two events act differently?
	d1, err1 := newFixture().effect(chain, e1)
	d2, err2 := newFixture().effect(chain, e2)
	if err1 != nil || err2 != nil {
		rec.Label("not-applicable")
		return nil
	}
	if d1 == d2 {
		rec.Label("inert:" + field)
		return nil
	}
	rec.NonTrivial = true
	rec.Shape = fmt.Sprintf("%s|%s|%d|%v", field, chain, c.Seed, c.Prefix)
	rec.Label("relevant:" + field)
	if bytes.Equal(e1.Hash(), e2.Hash()) {
		return pbt.Failf("same-claim-id:"+field, "on %s two events differing only in %s act differently but share the claim identifier %s\n  %v\n  %v", chain, field, e1.Hash(), e1, e2)
	}
	return nil
}

func checkC14() *pbt.Check {
	return &pbt.Check{
		ID:          "C14",
		Part:        "pairs",
		Rule:        "pairs of admissible events of one type and nonce differing in exactly one field (every field of the five event types, external addresses with and without 0x), plus pairs whose adjacent variable-length fields are shifted across the field boundary (coin id 1|0x30.. vs 10|..); both are applied with quorum on twin instances and the pair counts only if the resulting state differs; non-trivial = pairs that pass validation and differ in effect; distinct = (field, chain, values)",
		Gen:         genHashCase,
		New:         func() interface{} { return &HashCase{} },
		Run:         runHashCase,
		Assumptions: []string{"relevance of a field is established by execution (state digest without the vote records), never assumed"},
	}
}

func TestC14(t *testing.T) { checkC14().Main(t) }
