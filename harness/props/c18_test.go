package props

import (
	"fmt"
	"math/big"
	"sort"
	"strings"
	"testing"

	sdk "github.com/cosmos/cosmos-sdk/types"
	"pgregory.net/rapid"

	otypes "github.com/MinterTeam/mhub2/module/x/oracle/types"

	"verifharness/pbt"
	"verifharness/sim"
)

type OrVal struct {
	Power  int64 `json:"power"`
	Bonded bool  `json:"bonded"`
}

type OrOp struct {
	Kind    string `json:"kind"` // price | holders | block | power | unbond | rebond | remove | alien
	Val     int    `json:"val,omitempty"`
	Epoch   int    `json:"epoch,omitempty"`   // -1 stale, 0 current, +1 future
	Variant int    `json:"variant,omitempty"` // value pattern
	Missing bool   `json:"missing,omitempty"` // drop a required price / use a non-positive one
	Extra   bool   `json:"extra,omitempty"`   // add a non-required price name
	Power   int64  `json:"power,omitempty"`
}

type OrCase struct {
	Vals []OrVal `json:"vals"`
	Ops  []OrOp  `json:"ops"`
	// Hostile makes claims carry contents at the edge of what stateless validation admits (C05's oracle histories).
	Hostile bool `json:"hostile,omitempty"`
}

func genOrCase(t *rapid.T) interface{} {
	c := &OrCase{}
	n := rapid.IntRange(1, 9).Draw(t, "nvals")
	pg := rapid.OneOf(rapid.Int64Range(1, 3), rapid.SampledFrom([]int64{1, 2, 3, 10, 33, 34, 66, 67, 100, 1 << 20, 1 << 40, 1 << 48, 281500000000000, 120000000000000, 3 << 50, 1 << 58}), rapid.Int64Range(1, 300))
	for i := 0; i < n; i++ {
		c.Vals = append(c.Vals, OrVal{Power: pg.Draw(t, "power"), Bonded: i == 0 || rapid.IntRange(0, 9).Draw(t, "bonded") < 8})
	}
	if rapid.IntRange(0, 5).Draw(t, "thirds") == 0 {
		// stake that splits into exact thirds: 3, 6 or 9 equal validators, or 2,1,1,1,1
		c.Vals = nil
		if rapid.IntRange(0, 3).Draw(t, "shape") == 0 {
			for _, p := range []int64{2, 1, 1, 1, 1} {
				c.Vals = append(c.Vals, OrVal{Power: p * 7, Bonded: true})
			}
		} else {
			p := rapid.SampledFrom([]int64{1, 10, 33, 100}).Draw(t, "eqpower")
			for i, k := 0, rapid.SampledFrom([]int{3, 6, 9}).Draw(t, "eqn"); i < k; i++ {
				c.Vals = append(c.Vals, OrVal{Power: p, Bonded: true})
			}
		}
		n = len(c.Vals)
	}
	nops := rapid.IntRange(8, 90).Draw(t, "nops")
	for i := 0; i < nops; i++ {
		k := rapid.IntRange(0, 99).Draw(t, "k")
		op := OrOp{}
		switch {
		case k < 40:
			op.Kind = "price"
		case k < 55:
			op.Kind = "holders"
		case k < 58:
			op.Kind = "alien"
		case k < 63:
			op.Kind = "power"
			op.Power = pg.Draw(t, "newpower")
		case k < 66:
			op.Kind = "unbond"
		case k < 69:
			op.Kind = "rebond"
		case k < 71:
			op.Kind = "remove" // the validator leaves the staking store altogether (finished unbonding, no delegations)
		case k < 77:
			op.Kind = "hsplit" // the validators up to the one that completes two thirds of the stake report one holders list, the rest another
		default:
			op.Kind = "block"
		}
		op.Val = rapid.IntRange(0, n-1).Draw(t, "val")
		if op.Kind == "hsplit" {
			op.Variant = rapid.SampledFrom([]int{0, 0, 6, 8}).Draw(t, "pair") // which two lists the camps report
		}
		if op.Kind == "price" || op.Kind == "holders" {
			op.Epoch = rapid.SampledFrom([]int{0, 0, 0, 0, 0, 0, 0, -1, 1}).Draw(t, "epoch")
			op.Variant = rapid.IntRange(0, 9).Draw(t, "variant")
			op.Missing = rapid.IntRange(0, 9).Draw(t, "missing") == 0
			op.Extra = rapid.IntRange(0, 5).Draw(t, "extra") == 0
		}
		c.Ops = append(c.Ops, op)
	}
	return c
}

var orRequired = []string{"eth", "ethereum/gas", "bnb", "bsc/gas", "hub"}

func orPrice(name string, ni, val, variant int) sdk.Dec {
	// a few distinct values per name; variants 0/1 agree across validators, others spread
	base := int64(100 * (ni + 1))
	switch variant {
	case 0:
		return sdk.NewDec(base)
	case 1:
		return sdk.NewDec(base + 7)
	case 2:
		return sdk.NewDec(base).Add(sdk.NewDecWithPrec(int64(val+1), 1))
	case 3:
		return sdk.NewDec(base * int64(val+1))
	case 4:
		return sdk.NewDecWithPrec(int64(val*3+1), 18)
	default:
		return sdk.NewDec(base - int64(val))
	}
}

func orHolders(variant int) *otypes.Holders {
	hs := &otypes.Holders{}
	// variants 6/7 and 8/9: pairs of different lists whose entries, written one after the other, give the same text (holder
	// addresses are free-form strings): a digit moved from the head of an address to the tail of the preceding value, and
	// two entries spelled as one
	five, seven := new(big.Int).Mul(big.NewInt(5), pow10(18)), new(big.Int).Mul(big.NewInt(7), pow10(18))
	switch variant {
	case 6:
		hs.List = []*otypes.Holder{{Address: "1f5c2b7e63fd05aa1b3c4d5e6f708192a3baacc2", Value: sdk.NewIntFromBigInt(five)},
			{Address: "9c8b2b7e63fd05aa1b3c4d5e6f708192a3baac0b", Value: sdk.NewIntFromBigInt(seven)}}
		return hs
	case 7:
		hs.List = []*otypes.Holder{{Address: "1f5c2b7e63fd05aa1b3c4d5e6f708192a3baacc2", Value: sdk.NewIntFromBigInt(new(big.Int).Add(new(big.Int).Mul(five, big.NewInt(10)), big.NewInt(9)))},
			{Address: "c8b2b7e63fd05aa1b3c4d5e6f708192a3baac0b", Value: sdk.NewIntFromBigInt(seven)}}
		return hs
	case 8:
		hs.List = []*otypes.Holder{{Address: "ab", Value: sdk.NewInt(1)}, {Address: "cd", Value: sdk.NewInt(2)}}
		return hs
	case 9:
		hs.List = []*otypes.Holder{{Address: "ab:1cd", Value: sdk.NewInt(2)}}
		return hs
	}
	for u := 0; u < 3; u++ {
		v := sdk.NewIntFromBigInt(new(big.Int).Mul(big.NewInt(int64((u+1)*(variant%3+1))), pow10(18)))
		a := sim.ExtUser(u).Hex()[2:]
		if variant >= 3 && u == 0 {
			a = strings.ToUpper(a) // same holders, different spelling: a different list
		}
		hs.List = append(hs.List, &otypes.Holder{Address: a, Value: v})
	}
	return hs
}

func holdersKey(h *otypes.Holders) string {
	if h == nil {
		return "<nil>"
	}
	var xs []string
	for _, it := range h.List {
		xs = append(xs, it.Address+":"+it.Value.String())
	}
	sort.Strings(xs)
	return strings.Join(xs, ",")
}

func pricesKey(p *otypes.Prices) string {
	if p == nil {
		return "<nil>"
	}
	var xs []string
	for _, it := range p.List {
		xs = append(xs, it.Name+"="+it.Value.String())
	}
	sort.Strings(xs)
	return strings.Join(xs, ",")
}

type wv struct {
	v sdk.Dec
	w *big.Int
}

// weighted lower/upper medians of (value, weight) pairs
func wMedians(xs []wv) (sdk.Dec, sdk.Dec, bool) {
	var ys []wv
	tot := new(big.Int)
	for _, x := range xs {
		if x.w.Sign() > 0 {
			ys = append(ys, x)
			tot.Add(tot, x.w)
		}
	}
	if len(ys) == 0 {
		return sdk.Dec{}, sdk.Dec{}, false
	}
	sort.SliceStable(ys, func(i, j int) bool { return ys[i].v.LT(ys[j].v) })
	// lower median: smallest v with 2*cum >= tot ; upper median: smallest v with 2*cum > tot
	var lo, hi sdk.Dec
	loSet := false
	cum := new(big.Int)
	for _, y := range ys {
		cum.Add(cum, y.w)
		two := new(big.Int).Lsh(cum, 1)
		if !loSet && two.Cmp(tot) >= 0 {
			lo, loSet = y.v, true
		}
		if two.Cmp(tot) > 0 {
			hi = y.v
			break
		}
	}
	return lo, hi, true
}

func runOrCase(ci interface{}, rec *pbt.Rec) *pbt.Failure {
	return runOrCaseMode(ci, rec, false)
}

// runOrCaseMode with blockers=true reports a panicking or hanging blocker (C05) and nothing else.
func runOrCaseMode(ci interface{}, rec *pbt.Rec, blockers bool) *pbt.Failure {
	c := ci.(*OrCase)
	cfg := sim.Config{Tokens: attTokens, Prices: []sim.PriceCfg{{Name: "hub", Value: "1"}, {Name: "eth", Value: "1"}, {Name: "bnb", Value: "1"}}}
	for _, v := range c.Vals {
		cfg.Vals = append(cfg.Vals, sim.ValCfg{Power: v.Power, Bonded: v.Bonded})
	}
	h := sim.NewHub(cfg)
	height, now := int64(1), int64(1600000005)
	if err := h.Begin(height, now); err != nil {
		return pbt.Failf("harness", "%v", err)
	}
	nvals := len(c.Vals)
	epoch := h.O.GetCurrentEpoch(h.Ctx())
	// model of the running epoch
	latestPrices := map[int]map[string]sdk.Dec{}
	latestHolders := map[int]*otypes.Holders{}
	var repeats, nearQuorum, competing, processed, adoptedP, adoptedH int
	claimedP, claimedH := map[int]int{}, map[int]int{}

	stateOf := func() (string, string, uint64) {
		ctx := h.Ctx()
		return pricesKey(h.O.GetPrices(ctx)), holdersKey(h.O.GetHolders(ctx)), h.O.GetCurrentEpoch(ctx)
	}
	fail := func(key, f string, a ...interface{}) *pbt.Failure { return pbt.Failf(key, f, a...) }

	endBlock := func() *pbt.Failure {
		pBefore, hBefore, eBefore := stateOf()
		if err := h.End(); err != nil {
			if blockers {
				return pbt.Failf("oracle-blocker:"+normErr(err.Error()), "height %d: %v", height, err)
			}
			return nil // C05's subject
		}
		if blockers {
			epoch = h.O.GetCurrentEpoch(h.Ctx())
			latestPrices, latestHolders = map[int]map[string]sdk.Dec{}, map[int]*otypes.Holders{}
			claimedP, claimedH = map[int]int{}, map[int]int{}
			return nil
		}
		pAfter, hAfter, eAfter := stateOf()
		if height%5 != 0 {
			if pAfter != pBefore || hAfter != hBefore || eAfter != eBefore {
				return fail("changed-outside-epoch-boundary", "prices/holders/epoch changed in EndBlock of height %d", height)
			}
			return nil
		}
		processed++
		if eAfter != eBefore+1 {
			return fail("epoch-not-advanced-by-one", "epoch went from %d to %d at height %d", eBefore, eAfter, height)
		}
		total := big.NewInt(h.Staking.TotalPower())
		power := func(i int) *big.Int { return big.NewInt(h.Staking.GetLastValidatorPower(h.Ctx(), sim.ValAddr(i))) }
		quorum := func(m map[int]int) (bool, *big.Int) {
			sum := new(big.Int)
			for i := range m {
				sum.Add(sum, power(i))
			}
			lhs := new(big.Int).Mul(sum, big.NewInt(100))
			rhs := new(big.Int).Mul(total, big.NewInt(66))
			d := new(big.Int).Sub(lhs, rhs)
			if d.CmpAbs(new(big.Int).Mul(big.NewInt(200), big.NewInt(1))) <= 0 {
				nearQuorum++
			}
			return lhs.Cmp(rhs) >= 0, sum
		}
		// ---- prices
		okP, sumP := quorum(claimedP)
		if pAfter != pBefore {
			adoptedP++
			if !okP {
				return fail("prices-without-quorum", "prices changed at epoch %d although distinct claimers hold %s of %s (< 66%%)", eBefore, sumP, total)
			}
			got := h.O.GetPrices(h.Ctx())
			for _, p := range got.List {
				var exact, norm []wv
				for i, m := range latestPrices {
					if v, ok := m[p.Name]; ok {
						exact = append(exact, wv{v, power(i)})
						nw := new(big.Int).Mul(power(i), big.NewInt(65535))
						nw.Div(nw, total)
						norm = append(norm, wv{v, nw})
					}
				}
				lo1, hi1, ok1 := wMedians(exact)
				lo2, hi2, ok2 := wMedians(norm)
				if !ok1 {
					return fail("price-not-reported", "stored price %s=%s was reported by no claimer with power in epoch %d", p.Name, p.Value, eBefore)
				}
				lo, hi := lo1, hi1
				if ok2 {
					if lo2.LT(lo) {
						lo = lo2
					}
					if hi2.GT(hi) {
						hi = hi2
					}
				}
				if p.Value.LT(lo) || p.Value.GT(hi) {
					return fail("price-not-weighted-median", "stored %s=%s; the stake-weighted median of the latest reports lies in [%s, %s] (reports %v)", p.Name, p.Value, lo, hi, fmtWV(exact))
				}
			}
		}
		// ---- holders
		okH, sumH := quorum(claimedH)
		if hAfter != hBefore {
			adoptedH++
			if !okH {
				return fail("holders-without-quorum", "holders changed at epoch %d although distinct claimers hold %s of %s (< 66%%)", eBefore, sumH, total)
			}
			// more than two thirds of stake must have reported exactly this list (latest report counts)
			sum := new(big.Int)
			lists := map[string]bool{}
			for i, l := range latestHolders {
				lists[holdersKey(l)] = true
				if holdersKey(l) == hAfter {
					sum.Add(sum, power(i))
				}
			}
			if len(lists) > 1 {
				competing++
			}
			if new(big.Int).Mul(sum, big.NewInt(3)).Cmp(new(big.Int).Mul(total, big.NewInt(2))) <= 0 {
				return fail("holders-without-two-thirds", "holder list adopted at epoch %d with %s of %s stake behind it (<= 2/3)", eBefore, sum, total)
			}
		}
		epoch = eAfter
		latestPrices, latestHolders = map[int]map[string]sdk.Dec{}, map[int]*otypes.Holders{}
		claimedP, claimedH = map[int]int{}, map[int]int{}
		return nil
	}

	var ops []OrOp
	for _, op := range c.Ops {
		if op.Kind != "hsplit" {
			ops = append(ops, op)
			continue
		}
		tot, acc := big.NewInt(h.Staking.TotalPower()), new(big.Int)
		for i := 0; i < nvals; i++ {
			variant := op.Variant + 1
			if new(big.Int).Mul(acc, big.NewInt(3)).Cmp(new(big.Int).Mul(tot, big.NewInt(2))) < 0 {
				variant = op.Variant
			}
			acc.Add(acc, big.NewInt(h.Staking.GetLastValidatorPower(h.Ctx(), sim.ValAddr(i))))
			ops = append(ops, OrOp{Kind: "holders", Val: i, Variant: variant})
		}
	}
	for _, op := range ops {
		v := op.Val % nvals
		switch op.Kind {
		case "block":
			if f := endBlock(); f != nil {
				return f
			}
			height++
			now += 5
			if err := h.Begin(height, now); err != nil {
				return nil
			}
		case "power":
			p := op.Power
			h.QueueStaking(func(s *sim.SimStaking) { s.Vals[v].Power = p })
		case "unbond":
			h.QueueStaking(func(s *sim.SimStaking) {
				cnt := 0
				for _, x := range s.Vals {
					if x.Bonded {
						cnt++
					}
				}
				if cnt > 1 {
					s.Vals[v].Bonded, s.Vals[v].Unbonding = false, true
				}
			})
		case "rebond":
			h.QueueStaking(func(s *sim.SimStaking) {
				if !s.Vals[v].Removed {
					s.Vals[v].Bonded, s.Vals[v].Unbonding = true, false
				}
			})
		case "remove":
			h.QueueStaking(func(s *sim.SimStaking) {
				cnt := 0
				for _, x := range s.Vals {
					if x.Bonded && !x.Removed {
						cnt++
					}
				}
				if cnt > 1 || !s.Vals[v].Bonded {
					s.Vals[v].Bonded, s.Vals[v].Unbonding, s.Vals[v].Removed = false, false, true
				}
			})
		case "alien":
			pB, hB, eB := stateOf()
			before := h.StateHash()
			ps := &otypes.Prices{}
			for ni, n := range orRequired {
				ps.List = append(ps.List, &otypes.Price{Name: n, Value: orPrice(n, ni, 0, 0)})
			}
			r := h.Deliver(&otypes.MsgPriceClaim{Epoch: epoch, Prices: ps, Orchestrator: sim.UserAddr(v % 3).String()})
			if r.Err == nil || h.StateHash() != before {
				return fail("claim-by-non-validator", "a price claim from an account that is no validator was accepted or wrote state (err=%v)", r.Err)
			}
			_, _, _ = pB, hB, eB
		case "price", "holders":
			e := int64(epoch) + int64(op.Epoch)
			if e < 1 {
				e = 1
			}
			pB, hB, eB := stateOf()
			signer := sdk.AccAddress(sim.ValAddr(v)).String()
			var r sim.TxResult
			counts := e == int64(epoch)
			if op.Kind == "price" {
				ps := &otypes.Prices{}
				vals := map[string]sdk.Dec{}
				for ni, n := range orRequired {
					val := orPrice(n, ni, v, op.Variant)
					if op.Missing && ni == 2 {
						if op.Variant%2 == 0 {
							continue
						}
						val = sdk.ZeroDec()
					}
					ps.List = append(ps.List, &otypes.Price{Name: n, Value: val})
					vals[n] = val
				}
				if op.Extra {
					val := orPrice("extra", 9, v, op.Variant)
					ps.List = append(ps.List, &otypes.Price{Name: "extra", Value: val})
					vals["extra"] = val
				}
				if c.Hostile {
					switch op.Variant {
					case 0:
						ps.List = append(ps.List, &otypes.Price{Name: "neg", Value: sdk.NewDec(-5)})
					case 1:
						ps.List = append(ps.List, &otypes.Price{Name: "hub", Value: sdk.NewDec(3)}, &otypes.Price{Name: "hub", Value: sdk.NewDec(9)})
					case 2:
						ps.List = append(ps.List, &otypes.Price{Name: "huge", Value: sdk.NewDecFromBigInt(new(big.Int).Exp(big.NewInt(10), big.NewInt(58), nil))})
					case 3:
						ps.List = append(ps.List, &otypes.Price{Name: "", Value: sdk.ZeroDec()})
					case 4:
						ps.List = append(ps.List, &otypes.Price{Name: "unset"})
					}
				}
				r = h.Deliver(&otypes.MsgPriceClaim{Epoch: uint64(e), Prices: ps, Orchestrator: signer})
				if op.Missing && counts && r.Err == nil {
					return fail("claim-missing-required-price", "price claim without a positive %s was accepted", orRequired[2])
				}
				if r.Err == nil && counts {
					if _, again := claimedP[v]; again {
						repeats++
					}
					claimedP[v]++
					latestPrices[v] = vals
				}
			} else {
				hl := orHolders(op.Variant)
				if op.Variant == 2 && v%2 == 1 {
					// the same holders in another order: the same list as far as the tally is concerned
					for i, j := 0, len(hl.List)-1; i < j; i, j = i+1, j-1 {
						hl.List[i], hl.List[j] = hl.List[j], hl.List[i]
					}
				}
				if c.Hostile {
					switch op.Variant {
					case 0:
						hl.List = append(hl.List, &otypes.Holder{Address: "neg", Value: sdk.NewInt(-7)})
					case 1:
						hl = &otypes.Holders{}
					case 2:
						for k := 0; k < 300; k++ {
							hl.List = append(hl.List, &otypes.Holder{Address: fmt.Sprintf("%040x", k+1), Value: sdk.NewInt(int64(k))})
						}
					case 3:
						hl.List = append(hl.List, &otypes.Holder{Address: "unset"})
					case 4:
						hl = nil
					}
				}
				r = h.Deliver(&otypes.MsgHoldersClaim{Epoch: uint64(e), Holders: hl, Orchestrator: signer})
				if r.Err == nil && counts {
					if _, again := claimedH[v]; again {
						repeats++
					}
					claimedH[v]++
					latestHolders[v] = hl
				}
			}
			pA, hA, eA := stateOf()
			if pA != pB || hA != hB || eA != eB {
				return fail("changed-on-claim", "a %s claim (epoch %d, current %d) changed prices/holders/epoch outside an epoch boundary", op.Kind, e, epoch)
			}
		}
	}
	if f := endBlock(); f != nil {
		return f
	}
	rec.NonTrivial = processed > 0 && (repeats > 0 || nearQuorum > 0 || competing > 0) && (adoptedP+adoptedH) > 0
	rec.Label(fmt.Sprintf("epochs-processed=%s", bucket(processed)))
	rec.Label(fmt.Sprintf("prices-adopted=%s", bucket(adoptedP)))
	rec.Label(fmt.Sprintf("holders-adopted=%s", bucket(adoptedH)))
	if repeats > 0 {
		rec.Label("repeated-claimer")
	}
	if competing > 0 {
		rec.Label("competing-holder-lists")
	}
	return nil
}

func normErr(m string) string {
	var b strings.Builder
	for _, r := range m {
		if r >= '0' && r <= '9' {
			continue
		}
		b.WriteRune(r)
	}
	out := b.String()
	if i := strings.Index(out, " ["); i > 0 {
		out = out[:i]
	}
	if len(out) > 80 {
		out = out[:80]
	}
	return out
}

func fmtWV(xs []wv) string {
	var s []string
	for _, x := range xs {
		s = append(s, fmt.Sprintf("%s@%s", x.v, x.w))
	}
	return strings.Join(s, " ")
}

func TestC18(t *testing.T) {
	(&pbt.Check{
		ID:          "C18",
		Rule:        "claim histories on SimStaking: 1..9 validators of any power, any number of price/holder claims per validator and epoch (repeats with changed values, stale/future epochs, missing or non-positive required prices, extra names, 2-3 competing holder lists incl. case variants), stake changes, unbonding, foreign claimers, blocks through heights = 0 mod 5; non-trivial = >=1 epoch processed with an adoption and (a repeated claimer, or quorum within 2 power units, or competing holder lists); distinct = distinct case JSON",
		Gen:         genOrCase,
		New:         func() interface{} { return &OrCase{} },
		Run:         runOrCase,
		Assumptions: []string{"a stored price must lie between the lower and upper stake-weighted medians of the validators' latest values, computed with exact stakes and with the module's 2^16 normalisation (the wider interval is accepted)", "staking is the harness's SimStaking double"},
	}).Main(t)
}
