package props

import (
	"fmt"
	"math/big"
	"testing"

	sdk "github.com/cosmos/cosmos-sdk/types"
	"pgregory.net/rapid"

	mtypes "github.com/MinterTeam/mhub2/module/x/mhub2/types"

	"verifharness/bridge"
	"verifharness/pbt"
	"verifharness/sim"
)

// C19: one batch, executed with a generated gas cost; the payouts are read back
// from the new Minter pool entries and the fee records.

type FeeTx struct {
	Origin int    `json:"origin"` // 0 hub, 1 minter, 2 the other EVM chain
	Amount string `json:"amount"` // hub units (origin 0) / external units of the origin chain
	Fee    string `json:"fee"`
	Who    int    `json:"who"`
}

type FeeCase struct {
	Exec     int     `json:"exec"` // 0 ethereum, 1 bsc
	DecExec  uint64  `json:"dec_exec"`
	DecMint  uint64  `json:"dec_minter"`
	DecOther uint64  `json:"dec_other"`
	Rate     string  `json:"rate"`
	PriceTok string  `json:"price_tok"`
	PriceGas string  `json:"price_gas"`
	FeePaid  string  `json:"fee_paid"`
	Powers   []int64 `json:"powers"`
	NoMinter []bool  `json:"no_minter"`
	Txs      []FeeTx `json:"txs"`
	// Drift: stake changes (in 1/1000 of each validator's power) that take effect after the signer sets were published
	// and before the batch executes; small ones do not trigger a new signer set
	Drift []int `json:"drift,omitempty"`
	// Txs2: a second batch of transfers, executed after the first (what one batch leaves behind must not leak into the next)
	Txs2 []FeeTx `json:"txs2,omitempty"`
}

func genFeeCase(t *rapid.T) interface{} {
	c := &FeeCase{}
	c.Exec = rapid.IntRange(0, 1).Draw(t, "exec")
	decs := []uint64{0, 6, 8, 18, 18, 18, 24}
	c.DecExec = decs[rapid.IntRange(0, len(decs)-1).Draw(t, "decexec")]
	c.DecMint = rapid.SampledFrom([]uint64{18, 18, 18, 6, 24}).Draw(t, "decmint")
	c.DecOther = decs[rapid.IntRange(0, len(decs)-1).Draw(t, "decother")]
	c.Rate = rapid.SampledFrom([]string{"0", "0.01", "0.003", "0.000000000000000001", "0.25"}).Draw(t, "rate")
	prices := []string{"0.000000001", "0.001", "1", "3", "1800.5", "1000000000"}
	c.PriceTok = prices[rapid.IntRange(0, len(prices)-1).Draw(t, "ptok")]
	c.PriceGas = prices[rapid.IntRange(0, len(prices)-1).Draw(t, "pgas")]
	nv := rapid.IntRange(1, 9).Draw(t, "nv")
	for i := 0; i < nv; i++ {
		c.Powers = append(c.Powers, rapid.SampledFrom([]int64{1, 1, 2, 3, 7, 100, 1000, 1 << 31, 1 << 40}).Draw(t, "power"))
		c.NoMinter = append(c.NoMinter, i > 0 && rapid.IntRange(0, 4).Draw(t, "nominter") == 0)
	}
	if rapid.IntRange(0, 2).Draw(t, "drifting") == 0 {
		for i := 0; i < nv; i++ {
			c.Drift = append(c.Drift, rapid.SampledFrom([]int{0, 0, 10, -10, 30, -30, 70, -70, 200, -200}).Draw(t, "drift"))
		}
	}
	n := rapid.SampledFrom([]int{1, 2, 2, 3, 3, 4, 5, 8, 13, 30, 100}).Draw(t, "ntx")
	spread := rapid.IntRange(0, 3).Draw(t, "spread")
	unit := pow10(c.DecExec)
	if c.DecExec > 18 {
		unit = pow10(18)
	}
	mk := func(i int) FeeTx {
		tx := FeeTx{Origin: rapid.SampledFrom([]int{0, 0, 1, 1, 2}).Draw(t, "origin"), Who: rapid.IntRange(0, 2).Draw(t, "who")}
		var fee int64
		switch spread {
		case 0:
			fee = 1000
		case 1: // one whale
			fee = 10
			if i == 0 {
				fee = 1000000
			}
		case 2:
			fee = rapid.Int64Range(0, 5000).Draw(t, "fee")
		default:
			fee = rapid.SampledFrom([]int64{0, 1, 2, 999, 1000, 1001}).Draw(t, "fee")
		}
		// fees and amounts in 1e-3 token units so that decimals 0 keeps something
		f := new(big.Int).Mul(big.NewInt(fee), pow10(15))
		a := new(big.Int).Mul(big.NewInt(rapid.Int64Range(1, 100000).Draw(t, "amt")), pow10(18))
		if rapid.IntRange(0, 5).Draw(t, "oddfee") == 0 {
			f.Add(f, big.NewInt(rapid.Int64Range(0, 999999).Draw(t, "feedust")))
		}
		tx.Amount, tx.Fee = a.String(), f.String()
		return tx
	}
	for i := 0; i < n; i++ {
		c.Txs = append(c.Txs, mk(i))
	}
	if rapid.IntRange(0, 2).Draw(t, "second") == 0 {
		for i, n2 := 0, rapid.SampledFrom([]int{1, 2, 3, 5}).Draw(t, "ntx2"); i < n2; i++ {
			c.Txs2 = append(c.Txs2, mk(i))
		}
	}
	_ = unit
	switch rapid.IntRange(0, 3).Draw(t, "paidclass") {
	case 0:
		c.FeePaid = "0"
	case 1:
		c.FeePaid = new(big.Int).Mul(big.NewInt(rapid.Int64Range(1, 1000000).Draw(t, "paid")), pow10(uint64(rapid.IntRange(0, 18).Draw(t, "paide")))).String()
	default:
		c.FeePaid = new(big.Int).Mul(big.NewInt(rapid.Int64Range(1, 999).Draw(t, "paid")), pow10(15)).String()
	}
	return c
}

func runFeeCase(ci interface{}, rec *pbt.Rec) *pbt.Failure {
	c := ci.(*FeeCase)
	exec, other := "ethereum", "bsc"
	if c.Exec == 1 {
		exec, other = "bsc", "ethereum"
	}
	ids := map[string]string{"ethereum": "0xA091Bb826756eA25114c512B916754b3fBCb4f63", "bsc": "0xf7413144696C5E5502307A8015c6359965CAA725", "minter": "7"}
	dec := map[string]uint64{exec: c.DecExec, other: c.DecOther, "minter": c.DecMint}
	cfg := sim.Config{
		Tokens: []sim.TokenCfg{
			{Id: 1, Denom: "hub", Chain: exec, ExtId: ids[exec], Decimals: c.DecExec, Commission: c.Rate},
			{Id: 2, Denom: "hub", Chain: other, ExtId: ids[other], Decimals: c.DecOther, Commission: "0.01"},
			{Id: 3, Denom: "hub", Chain: "minter", ExtId: ids["minter"], Decimals: c.DecMint, Commission: "0.01"},
		},
		Prices: []sim.PriceCfg{{Name: "hub", Value: c.PriceTok}, {Name: "eth", Value: c.PriceGas}, {Name: "bnb", Value: c.PriceGas}},
	}
	for i, p := range c.Powers {
		keys := []string{"ethereum", "bsc", "minter"}
		if c.NoMinter[i] {
			keys = []string{"ethereum", "bsc"}
		}
		cfg.Vals = append(cfg.Vals, sim.ValCfg{Power: p, Bonded: true, Keys: keys})
	}
	h := sim.NewHub(cfg)
	for u := 0; u < 3; u++ {
		h.Fund(sim.UserAddr(u), "hub", new(big.Int).Lsh(big.NewInt(1), 200))
	}
	if err := h.Begin(1, 1600000005); err != nil {
		return nil
	}
	claim := func(chain string, ev mtypes.ExternalEvent) {
		any, _ := mtypes.PackEvent(ev)
		for vi := range c.Powers {
			h.Deliver(&mtypes.MsgSubmitExternalEvent{Event: any, Signer: sdk.AccAddress(sim.ValAddr(vi)).String(), ChainId: chain})
		}
	}
	nonce := map[string]uint64{}
	stopRun := &pbt.Failure{Key: "__stop"}
	blk := int64(1)
	live := append([]int64{}, c.Powers...)
	// one round = transfers, a batch, its execution, the payout checks; a second round runs on the state the first left
	round := func(txs []FeeTx, rno int) *pbt.Failure {
		if rno > 0 {
			blk++
			if err := h.Begin(blk, 1600000005+5*blk); err != nil {
				return stopRun
			}
		}
		for i, tx := range txs {
			a, f := bi(tx.Amount), bi(tx.Fee)
			switch tx.Origin {
			case 0:
				h.Deliver(mtypes.NewMsgSendToExternal(mtypes.ChainID(exec), sim.UserAddr(tx.Who), sim.ExtUser(tx.Who).Hex(), sdk.NewCoin("hub", sdk.NewIntFromBigInt(a)), sdk.NewCoin("hub", sdk.NewIntFromBigInt(f))))
			default:
				src := "minter"
				if tx.Origin == 2 {
					src = other
				}
				nonce[src]++
				claim(src, &mtypes.TransferToChainEvent{EventNonce: nonce[src], ExternalCoinId: ids[src],
					Amount: sdk.NewIntFromBigInt(bridge.ToExt(dec[src], a)), Fee: sdk.NewIntFromBigInt(bridge.ToExt(dec[src], f)),
					Sender: sim.ExtUser(tx.Who).Hex(), ReceiverChainId: exec, ExternalReceiver: sim.ExtUser(3).Hex(),
					ExternalHeight: 100, TxHash: fmt.Sprintf("0x%064x", 1000*rno+i+1)})
			}
		}
		// stake drifts after the signer sets of block 1 were published (applied at this block's staking step)
		for i, d := range c.Drift {
			if rno > 0 {
				break
			}
			if i < len(live) {
				np := live[i] + live[i]*int64(d)/1000
				if np >= 1 {
					live[i] = np
				}
			}
		}
		if len(c.Drift) > 0 && rno == 0 {
			lv := append([]int64{}, live...)
			h.QueueStaking(func(s *sim.SimStaking) {
				for i := range lv {
					s.Vals[i].Power = lv[i]
				}
			})
			rec.Label("stake-drift-before-execution")
		}
		if err := h.End(); err != nil {
			return stopRun // C05's subject
		}
		blk++
		if err := h.Begin(blk, 1600000005+5*blk); err != nil {
			return stopRun
		}
		bs := h.Batches(exec)
		if len(bs) == 0 {
			rec.Label("no-batch")
			return stopRun
		}
		b := bs[0]
		members := b.Transactions
		nonce[exec]++
		payer := sim.ExtUser(3).Hex()
		payer = "0x00000000000000000000000000000000000fee00"
		claim(exec, &mtypes.BatchExecutedEvent{ExternalCoinId: ids[exec], EventNonce: nonce[exec], ExternalHeight: 100, BatchNonce: b.BatchNonce,
			TxHash: "0xexec", FeePaid: sdk.NewIntFromBigInt(bi(c.FeePaid)), FeePayer: payer})
		prePool := map[uint64]bool{}
		for _, e := range h.Pool("minter") {
			prePool[e.Id] = true
		}
		supBefore := h.Supply("hub")
		if err := h.End(); err != nil {
			rec.Label("blocker-failed")
			return stopRun // C05's subject
		}
		if len(h.Batches(exec)) != len(bs)-1 {
			return pbt.Failf("harness", "batch not executed")
		}
		// what was collected
		sumFee, sumComm := new(big.Int), new(big.Int)
		feeByRefund := map[string]*big.Int{}
		for _, tx := range members {
			sumFee.Add(sumFee, tx.Fee.Amount.BigInt())
			sumComm.Add(sumComm, tx.ValCommission.Amount.BigInt())
			if tx.RefundChainId == "minter" {
				k := tx.RefundAddress
				if feeByRefund[k] == nil {
					feeByRefund[k] = new(big.Int)
				}
				feeByRefund[k].Add(feeByRefund[k], bridge.FromExt(c.DecExec, tx.Fee.Amount.BigInt()))
			}
		}
		totalFee := bridge.FromExt(c.DecExec, sumFee)
		totalComm := bridge.FromExt(c.DecExec, sumComm)
		// payouts
		var reimb *big.Int
		refunds := map[string]*big.Int{}
		commTo := map[string]*big.Int{}
		newValue := new(big.Int)
		for _, e := range h.Pool("minter") {
			if prePool[e.Id] {
				continue
			}
			v := e.Token.Amount.BigInt()
			newValue.Add(newValue, bridge.FromExt(c.DecMint, v))
			switch {
			case e.TxHash == "#commission":
				if commTo[e.ExternalRecipient] == nil {
					commTo[e.ExternalRecipient] = new(big.Int)
				}
				commTo[e.ExternalRecipient].Add(commTo[e.ExternalRecipient], v)
			case e.TxHash == "#fee" && e.ExternalRecipient == payer:
				if reimb == nil {
					reimb = new(big.Int)
				}
				reimb.Add(reimb, v)
			case e.TxHash == "#fee":
				if refunds[e.ExternalRecipient] == nil {
					refunds[e.ExternalRecipient] = new(big.Int)
				}
				refunds[e.ExternalRecipient].Add(refunds[e.ExternalRecipient], v)
			default:
				return pbt.Failf("unexpected-payout", "unexpected new minter transfer %d (%s) to %s", e.Id, e.TxHash, e.ExternalRecipient)
			}
		}
		// 1. reimbursement within collected fees
		if reimb != nil && reimb.Cmp(bridge.ToExt(c.DecMint, totalFee)) > 0 {
			return pbt.Failf("reimbursement-exceeds-fees", "relayer reimbursed %s (minter units), fees collected in the batch are %s", reimb, bridge.ToExt(c.DecMint, totalFee))
		}
		// 2. refunds: only to minter-origin users, never above what they paid
		for addr, r := range refunds {
			paid := feeByRefund[addr]
			if paid == nil {
				return pbt.Failf("refund-to-non-minter-origin", "fee refund of %s to %s, which is not the refund address of a minter-origin transfer of the batch", r, addr)
			}
			if r.Cmp(bridge.ToExt(c.DecMint, paid)) > 0 {
				return pbt.Failf("refund-exceeds-fee-paid", "fee refund %s to %s exceeds the fee paid %s", r, addr, bridge.ToExt(c.DecMint, paid))
			}
		}
		// 3. commission: proportional to power among validators with a minter key, sum within collected
		var stakeSum int64
		for i, p := range live {
			if !c.NoMinter[i] {
				stakeSum += p
			}
		}
		commSum := new(big.Int)
		for i, p := range live {
			addr := sim.EthAddr(i, "minter", 0).Hex()
			got := commTo[addr]
			if c.NoMinter[i] {
				if got != nil {
					return pbt.Failf("commission-to-keyless", "validator %d has no minter key but was paid %s", i, got)
				}
				continue
			}
			if got == nil {
				got = new(big.Int)
			}
			commSum.Add(commSum, got)
			delete(commTo, addr)
			// exact proportional share in minter units, tolerance: normalisation to 2^32 and three truncations
			ideal := new(big.Rat).SetFrac(new(big.Int).Mul(bridge.ToExt(c.DecMint, totalComm), big.NewInt(p)), big.NewInt(stakeSum))
			lo := new(big.Rat).Sub(ideal, new(big.Rat).SetFrac(bridge.ToExt(c.DecMint, totalComm), big.NewInt(1<<28)))
			lo.Sub(lo, big.NewRat(3, 1))
			lo.Sub(lo, new(big.Rat).SetInt(pow10(maxU(c.DecMint, 18)-18)))
			hi := new(big.Rat).Add(ideal, new(big.Rat).SetFrac(bridge.ToExt(c.DecMint, totalComm), big.NewInt(1<<28)))
			hi.Add(hi, big.NewRat(3, 1))
			g := new(big.Rat).SetInt(got)
			if g.Cmp(lo) < 0 || g.Cmp(hi) > 0 {
				return pbt.Failf("commission-not-proportional", "validator %d (power %d of %d) was paid %s of a commission of %s; proportional share is %s", i, p, stakeSum, got, bridge.ToExt(c.DecMint, totalComm), ideal.FloatString(3))
			}
		}
		for addr, v := range commTo {
			return pbt.Failf("commission-to-stranger", "commission %s paid to %s which is no validator's minter address", v, addr)
		}
		if commSum.Cmp(bridge.ToExt(c.DecMint, totalComm)) > 0 {
			return pbt.Failf("commission-exceeds-collected", "commission payouts %s exceed the commission collected %s", commSum, bridge.ToExt(c.DecMint, totalComm))
		}
		// 4. value conservation: supply growth + new in-flight value never exceeds what was collected
		growth := new(big.Int).Sub(h.Supply("hub"), supBefore)
		if new(big.Int).Add(growth, newValue).Cmp(new(big.Int).Add(totalFee, totalComm)) > 0 {
			return pbt.Failf("payouts-exceed-collected", "supply grew by %s and %s went in flight, but the batch collected only fee %s + commission %s", growth, newValue, totalFee, totalComm)
		}
		// 5. fee records
		ctx := h.Ctx()
		seen := map[string]bool{}
		for _, tx := range members {
			if tx.TxHash == "" || tx.TxHash[0] == '#' || seen[tx.TxHash] {
				continue
			}
			seen[tx.TxHash] = true
			// the record as reported to users (TransactionFeeRecord query)
			qr, qerr := h.K.TransactionFeeRecord(sdk.WrapSDKContext(ctx), &mtypes.TransactionFeeRecordRequest{TxHash: tx.TxHash})
			if qerr != nil || qr == nil {
				return pbt.Failf("fee-record-query", "TransactionFeeRecord(%s): %v", tx.TxHash, qerr)
			}
			r := qr.Record
			if r == nil {
				return pbt.Failf("fee-record-missing", "no fee record for executed transfer %d", tx.Id)
			}
			if r.ExternalFee.IsNegative() || r.ExternalFee.BigInt().Cmp(tx.Fee.Amount.BigInt()) > 0 {
				return pbt.Failf("fee-record-out-of-range", "fee record of transfer %d reports %s kept, fee paid was %s (external units, decimals %d)", tx.Id, r.ExternalFee, tx.Fee.Amount, c.DecExec)
			}
			if r.ValCommission.BigInt().Cmp(tx.ValCommission.Amount.BigInt()) != 0 {
				return pbt.Failf("fee-record-commission", "fee record of transfer %d reports commission %s, charged %s", tx.Id, r.ValCommission, tx.ValCommission.Amount)
			}
			// kept = paid - refund (exact when the refund is visible without rounding)
			if tx.RefundChainId == "minter" && c.DecMint == 18 {
				cnt := 0
				for _, o := range members {
					if o.RefundChainId == "minter" && o.RefundAddress == tx.RefundAddress {
						cnt++
					}
				}
				if cnt == 1 {
					ref := refunds[tx.RefundAddress]
					if ref == nil {
						ref = new(big.Int)
					}
					want := new(big.Int).Sub(tx.Fee.Amount.BigInt(), bridge.ToExt(c.DecExec, ref))
					d := new(big.Int).Sub(r.ExternalFee.BigInt(), want)
					if d.CmpAbs(big.NewInt(1)) > 0 {
						return pbt.Failf("fee-record-not-fee-minus-refund", "transfer %d paid %s, was refunded %s hub units, record says %s kept (expected %s)", tx.Id, tx.Fee.Amount, ref, r.ExternalFee, want)
					}
				}
			}
		}
		partial := reimb != nil && reimb.Sign() > 0 && reimb.Cmp(bridge.ToExt(c.DecMint, totalFee)) < 0
		rec.NonTrivial = partial && len(members) >= 2
		if partial {
			rec.Label("partial-reimbursement")
		}
		if len(refunds) > 0 {
			rec.Label("user-refunds")
		}
		if len(members) == 100 {
			rec.Label("full-batch")
		}
		if c.DecExec != 18 {
			rec.Label("decimals!=18")
		}
		return nil
	}
	if f := round(c.Txs, 0); f != nil {
		if f == stopRun {
			return nil
		}
		return f
	}
	if len(c.Txs2) > 0 {
		rec.Label("second-batch")
		if f := round(c.Txs2, 1); f != nil {
			if f == stopRun {
				return nil
			}
			f.Msg = "second batch: " + f.Msg
			return f
		}
	}
	return nil
}

func maxU(a, b uint64) uint64 {
	if a > b {
		return a
	}
	return b
}

func TestC19(t *testing.T) {
	(&pbt.Check{
		ID:          "C19",
		Rule:        "one batch of 1..100 transfers (origins hub / minter / other EVM chain; equal fees, one whale, many below average) executed with a generated gas cost, price ratio 1e-9..1e9, decimals 0..24, 1..9 validators with any power split, some without minter key; payouts read from the new Minter pool entries and fee records; non-trivial = 0 < reimbursement < total fee with >=2 transfers; distinct = distinct case JSON",
		Gen:         genFeeCase,
		New:         func() interface{} { return &FeeCase{} },
		Run:         runFeeCase,
		Assumptions: []string{"proportionality is accepted within n/2^32 relative error of the 2^32 power normalisation (bounded by total/2^28 for <=9 validators) plus three units", "exact kept-fee equality is checked when the refund is visible without rounding (minter decimals 18, one transfer per refund address)"},
	}).Main(t)
}
