package props

import (
	"fmt"
	"testing"

	sdk "github.com/cosmos/cosmos-sdk/types"
	"github.com/ethereum/go-ethereum/common"
	ethcrypto "github.com/ethereum/go-ethereum/crypto"
	"pgregory.net/rapid"

	mtypes "github.com/MinterTeam/mhub2/module/x/mhub2/types"

	"verifharness/pbt"
	"verifharness/sim"
)

// C17: delegate-key registry.

type RegOp struct {
	Kind  string `json:"kind"` // reg | vote | block | remove | recreate
	Val   int    `json:"val"`  // validator index; == number of validators means "not a validator"
	Chain int    `json:"chain"`
	EKey  int    `json:"ekey"`            // external key from a small pool
	Orch  int    `json:"orch"`            // orchestrator account from a small pool (some are validators' own accounts)
	Spell int    `json:"spell,omitempty"` // spelling of the external address in the message: 0 checksummed, 1 lower case, 2 upper case, 3 "0X" prefix, 4 no prefix
	Sig   int    `json:"sig"`             // 0 good, 1 future nonce, 2 stale nonce, 3 other key signs, 4 signed for another validator, 5 garbage, 6 replay of the last good signature
}

type RegCase struct {
	NVals   int     `json:"nvals"`
	Genesis []int   `json:"genesis"` // validators whose keys for ethereum are registered at genesis
	Ops     []RegOp `json:"ops"`
}

var regChains = []string{"ethereum", "bsc", "minter"}

const regKeys, regOrchs = 7, 8

// edgeIdx: key and account indices whose addresses start with the bytes 0xff and 0x00 (one address in 128 does; such
// entries sit at the two ends of every per-chain index range)
var edgeIdx = func() (r struct{ keyFF, key00, orchFF, orch00 int }) {
	for i := 1000; r.keyFF == 0 || r.key00 == 0; i++ {
		switch a := sim.EthAddr(i, "pool", 0); {
		case a[0] == 0xff && r.keyFF == 0:
			r.keyFF = i
		case a[0] == 0x00 && r.key00 == 0:
			r.key00 = i
		}
	}
	for i := 1000; r.orchFF == 0 || r.orch00 == 0; i++ {
		switch a := sim.OrchAddr(i); {
		case a[0] == 0xff && r.orchFF == 0:
			r.orchFF = i
		case a[0] == 0x00 && r.orch00 == 0:
			r.orch00 = i
		}
	}
	return
}()

func regKey(i int) (addr common.Address, idx int) {
	// key pool shared by all validators and chains
	switch i {
	case 5:
		return sim.EthAddr(edgeIdx.keyFF, "pool", 0), edgeIdx.keyFF
	case 6:
		return sim.EthAddr(edgeIdx.key00, "pool", 0), edgeIdx.key00
	}
	return sim.EthAddr(100+i, "pool", 0), 100 + i
}

func regOrch(i, nvals int) sdk.AccAddress {
	switch {
	case i < 4:
		return sim.OrchAddr(50 + i)
	case i == 6:
		return sim.OrchAddr(edgeIdx.orchFF)
	case i == 7:
		return sim.OrchAddr(edgeIdx.orch00)
	}
	// two entries are validators' own accounts
	return sdk.AccAddress(sim.ValAddr((i - 4) % nvals))
}

func genRegCase(t *rapid.T) interface{} {
	c := &RegCase{NVals: rapid.IntRange(2, 4).Draw(t, "nvals")}
	for i := 0; i < c.NVals; i++ {
		if rapid.IntRange(0, 3).Draw(t, "gen") == 0 {
			c.Genesis = append(c.Genesis, i)
		}
	}
	n := rapid.IntRange(4, 40).Draw(t, "nops")
	for i := 0; i < n; i++ {
		k := rapid.IntRange(0, 9).Draw(t, "k")
		op := RegOp{Chain: rapid.SampledFrom([]int{0, 0, 0, 1, 2}).Draw(t, "chain")}
		switch {
		case k < 6:
			op.Kind = "reg"
			op.Val = rapid.IntRange(0, c.NVals).Draw(t, "val")
			op.EKey = rapid.IntRange(0, regKeys-1).Draw(t, "ekey")
			op.Orch = rapid.IntRange(0, regOrchs-1).Draw(t, "orch")
			op.Sig = rapid.SampledFrom([]int{0, 0, 0, 0, 0, 0, 1, 2, 3, 4, 5, 6}).Draw(t, "sig")
			op.Spell = rapid.SampledFrom([]int{0, 0, 0, 1, 2, 3, 4}).Draw(t, "spell")
		case k < 9:
			op.Kind = "vote"
			op.Orch = rapid.IntRange(0, regOrchs-1).Draw(t, "orch")
		default:
			op.Kind = "block"
			switch rapid.IntRange(0, 5).Draw(t, "staking") {
			case 0:
				op.Kind = "remove" // the validator leaves the staking store (finished unbonding without delegations); its bindings stay
				op.Val = rapid.IntRange(0, c.NVals-1).Draw(t, "val")
			case 1:
				op.Kind = "recreate" // the operator creates the validator again
				op.Val = rapid.IntRange(0, c.NVals-1).Draw(t, "val")
			}
		}
		c.Ops = append(c.Ops, op)
	}
	return c
}

type binding struct {
	e common.Address
	o sdk.AccAddress
}

func runRegCase(ci interface{}, rec *pbt.Rec) *pbt.Failure {
	c := ci.(*RegCase)
	cfg := sim.Config{Tokens: attTokens, Prices: []sim.PriceCfg{{Name: "hub", Value: "1"}}}
	for i := 0; i < c.NVals; i++ {
		vc := sim.ValCfg{Power: int64(10 + i), Bonded: true}
		for _, g := range c.Genesis {
			if g == i {
				vc.Keys = []string{"ethereum"}
			}
		}
		cfg.Vals = append(cfg.Vals, vc)
	}
	h := sim.NewHub(cfg)
	height, now := int64(1), int64(1600000005)
	if err := h.Begin(height, now); err != nil {
		return nil
	}
	// model: current binding per chain and validator; who ever used what
	cur := map[string]map[int]binding{}
	usedE := map[string]map[common.Address]bool{}
	usedO := map[string]map[string]bool{}
	orchOwner := map[string]map[string]int{} // chain -> orchestrator -> validator that last registered it
	for _, ch := range regChains {
		cur[ch], usedE[ch], usedO[ch], orchOwner[ch] = map[int]binding{}, map[common.Address]bool{}, map[string]bool{}, map[string]int{}
	}
	for _, g := range c.Genesis {
		b := binding{sim.EthAddr(g, "ethereum", 0), sim.OrchAddr(g)}
		cur["ethereum"][g] = b
		usedE["ethereum"][b.e], usedO["ethereum"][b.o.String()] = true, true
		orchOwner["ethereum"][b.o.String()] = g
	}
	var lastGood map[string][]byte = map[string][]byte{}
	var reuseAttempts, replays, accepted, voteChecks int
	lastNonce := map[string]uint64{}

	invariants := func() *pbt.Failure {
		ctx := h.Ctx()
		c2 := sdk.WrapSDKContext(ctx)
		for _, ch := range regChains {
			seen := map[common.Address]int{}
			for v := 0; v < c.NVals; v++ {
				e := h.K.GetValidatorExternalAddress(ctx, mtypes.ChainID(ch), sim.ValAddr(v))
				want, has := cur[ch][v]
				if !has {
					if e != (common.Address{}) {
						return pbt.Failf("binding-from-nowhere", "%s: validator %d has external address %s without an accepted registration", ch, v, e.Hex())
					}
					continue
				}
				if e != want.e {
					return pbt.Failf("binding-lost", "%s: validator %d is bound to %s, last accepted registration was %s", ch, v, e.Hex(), want.e.Hex())
				}
				if o, dup := seen[e]; dup {
					return pbt.Failf("external-address-shared", "%s: external address %s is bound to validators %d and %d", ch, e.Hex(), o, v)
				}
				seen[e] = v
				// the three lookups agree
				if o := h.K.GetExternalOrchestratorAddress(ctx, mtypes.ChainID(ch), e); !o.Equals(want.o) {
					return pbt.Failf("index-mismatch", "%s: external address %s of validator %d resolves to orchestrator %s, registered %s", ch, e.Hex(), v, o, want.o)
				}
				if val := h.K.GetOrchestratorValidatorAddress(ctx, mtypes.ChainID(ch), want.o); !val.Equals(sim.ValAddr(v)) {
					return pbt.Failf("orchestrator-shared", "%s: orchestrator %s registered by validator %d resolves to %s", ch, want.o, v, val)
				}
				r1, err := h.K.DelegateKeysByValidator(c2, &mtypes.DelegateKeysByValidatorRequest{ValidatorAddress: sim.ValAddr(v).String(), ChainId: ch})
				if err != nil || r1.EthAddress != e.Hex() || r1.OrchestratorAddress != want.o.String() {
					return pbt.Failf("query-mismatch", "%s: DelegateKeysByValidator(%d) = %v, %v; want %s / %s", ch, v, r1, err, e.Hex(), want.o)
				}
				r2, err := h.K.DelegateKeysByExternalSigner(c2, &mtypes.DelegateKeysByExternalSignerRequest{ExternalSigner: e.Hex(), ChainId: ch})
				if err != nil || r2.ValidatorAddress != sim.ValAddr(v).String() || r2.OrchestratorAddress != want.o.String() {
					return pbt.Failf("query-mismatch", "%s: DelegateKeysByExternalSigner(%s) = %v, %v; want validator %d", ch, e.Hex(), r2, err, v)
				}
				r3, err := h.K.DelegateKeysByOrchestrator(c2, &mtypes.DelegateKeysByOrchestratorRequest{OrchestratorAddress: want.o.String(), ChainId: ch})
				if err != nil || r3.ValidatorAddress != sim.ValAddr(v).String() || r3.ExternalSigner != e.Hex() {
					return pbt.Failf("query-mismatch", "%s: DelegateKeysByOrchestrator(%s) = %v, %v; want validator %d / %s", ch, want.o, r3, err, v, e.Hex())
				}
			}
		}
		return nil
	}

	for _, op := range c.Ops {
		ch := regChains[op.Chain%3]
		switch op.Kind {
		case "block":
			if err := h.End(); err != nil {
				return nil
			}
			height++
			now += 5
			if err := h.Begin(height, now); err != nil {
				return nil
			}
		case "remove", "recreate":
			v, gone := op.Val%c.NVals, op.Kind == "remove"
			h.QueueStaking(func(s *sim.SimStaking) {
				n := 0
				for _, x := range s.Vals {
					if x.Bonded && !x.Removed {
						n++
					}
				}
				if gone && n > 1 {
					s.Vals[v].Removed, s.Vals[v].Bonded = true, false
				}
				if !gone && s.Vals[v].Removed {
					s.Vals[v].Removed, s.Vals[v].Bonded = false, true
				}
			})
			if err := h.End(); err != nil {
				return nil
			}
			height++
			now += 5
			if err := h.Begin(height, now); err != nil {
				return nil
			}
		case "reg":
			isVal := op.Val < c.NVals && !h.Staking.Vals[op.Val].Removed
			var valAddr sdk.ValAddress
			if op.Val < c.NVals {
				valAddr = sim.ValAddr(op.Val) // (a validator that left the staking store is no validator any more)
			} else {
				valAddr = sdk.ValAddress(sim.UserAddr(1)) // an account that is no validator
			}
			acc := sdk.AccAddress(valAddr)
			e, keyIdx := regKey(op.EKey)
			o := regOrch(op.Orch, c.NVals)
			ctx := h.Ctx()
			a := h.Acc.GetAccount(ctx, acc)
			if a == nil {
				a = h.Acc.NewAccountWithAddress(ctx, acc)
			}
			seq := a.GetSequence()
			signNonce, signVal, signKey := seq, valAddr.String(), sim.EthKey(keyIdx, "pool", 0)
			switch op.Sig {
			case 1:
				signNonce = seq + 1
			case 2:
				if seq > 0 {
					signNonce = seq - 1
				} else {
					signNonce = 7
				}
			case 3:
				signKey = sim.EthKey(keyIdx+1, "pool", 0)
			case 4:
				signVal = sim.ValAddr((op.Val + 1) % c.NVals).String()
			}
			bz := h.Cdc.MustMarshal(&mtypes.DelegateKeysSignMsg{ValidatorAddress: signVal, Nonce: signNonce})
			sig, _ := mtypes.NewEthereumSignature(ethcrypto.Keccak256Hash(bz).Bytes(), signKey)
			skey := fmt.Sprintf("%s|%d|%d", ch, op.Val, op.EKey)
			replayed := false
			switch op.Sig {
			case 5:
				sig = append([]byte{}, sig...)
				sig[5] ^= 0x40
			case 6:
				if old, ok := lastGood[skey]; ok && lastNonce[skey] != seq {
					sig = old
					replayed = true
					replays++
				}
			}
			// the ante handler increments the sequence before the message runs
			a.SetSequence(seq + 1)
			h.Acc.SetAccount(ctx, a)
			sigGood := op.Sig == 0 || (op.Sig == 6 && !replayed)
			// conflicts with CURRENT bindings of other validators
			eTaken, oTaken := false, false
			for v, b := range cur[ch] {
				if v != op.Val || !isVal {
					if b.e == e {
						eTaken = true
					}
					if b.o.Equals(o) {
						oTaken = true
					}
				}
			}
			if usedE[ch][e] || usedO[ch][o.String()] {
				reuseAttempts++
			}
			before := h.StateHash()
			res := h.Deliver(&mtypes.MsgDelegateKeys{ValidatorAddress: valAddr.String(), OrchestratorAddress: o.String(), ExternalAddress: spellAddr(e, op.Spell), EthSignature: sig, ChainId: ch})
			ok := res.Err == nil
			if ok {
				accepted++
				switch {
				case !isVal:
					return pbt.Failf("unknown-validator-registered", "%s: a registration for %s, which is no validator, was accepted", ch, valAddr)
				case !sigGood:
					return pbt.Failf("bad-signature-accepted", "%s: registration of validator %d accepted with signature mode %d (signed nonce %d, account sequence before the tx %d)", ch, op.Val, op.Sig, signNonce, seq)
				case eTaken:
					return pbt.Failf("external-address-shared", "%s: validator %d registered external address %s which another validator holds", ch, op.Val, e.Hex())
				case oTaken:
					return pbt.Failf("orchestrator-shared", "%s: validator %d registered orchestrator %s which another validator holds", ch, op.Val, o)
				}
				cur[ch][op.Val] = binding{e, o}
				orchOwner[ch][o.String()] = op.Val
				if sigGood {
					lastGood[skey], lastNonce[skey] = sig, seq
				}
			} else {
				if h.StateHash() != before {
					return pbt.Failf("failed-registration-wrote", "%s: refused registration changed state (%v)", ch, res.Err)
				}
				fresh := !usedE[ch][e] && !usedO[ch][o.String()]
				// a validator's own account used as somebody's orchestrator is not "fresh" for others
				if isVal && sigGood && fresh {
					return pbt.Failf("fresh-registration-refused", "%s: validator %d could not register unused keys %s / %s: %v", ch, op.Val, e.Hex(), o, res.Err)
				}
			}
			usedE[ch][e], usedO[ch][o.String()] = true, true
		case "vote":
			// a claim sent by an orchestrator account is attributed to the validator that registered it
			o := regOrch(op.Orch, c.NVals)
			owner, has := orchOwner[ch][o.String()]
			if !has || ch == "minter" {
				continue
			}
			if b, ok := cur[ch][owner]; !ok || !b.o.Equals(o) {
				continue // superseded binding: out of scope here
			}
			ctx := h.Ctx()
			nonce := h.K.GetLastObservedEventNonce(ctx, mtypes.ChainID(ch)) + 1
			ev := attEvent(ch, nonce, 0)
			any, _ := mtypes.PackEvent(ev)
			res := h.Deliver(&mtypes.MsgSubmitExternalEvent{Event: any, Signer: o.String(), ChainId: ch})
			if res.Err != nil {
				continue
			}
			voteChecks++
			r := h.K.GetExternalEventVoteRecord(h.Ctx(), mtypes.ChainID(ch), nonce, ev.Hash())
			found := false
			if r != nil {
				for _, v := range r.Votes {
					if v == sim.ValAddr(owner).String() {
						found = true
					}
				}
			}
			if !found {
				return pbt.Failf("orchestrator-vote-misattributed", "%s: claim sent by orchestrator %s (registered by validator %d) is not recorded as that validator's vote (recorded voters: %v)", ch, o, owner, votersOf(r))
			}
		}
		if f := invariants(); f != nil {
			return f
		}
	}
	rec.NonTrivial = reuseAttempts > 0 && accepted > 0
	rec.Label("accepted=" + bucket(accepted))
	if replays > 0 {
		rec.Label("replayed-signature")
	}
	if reuseAttempts > 0 {
		rec.Label("address-reuse-attempt")
	}
	if voteChecks > 0 {
		rec.Label("orchestrator-vote-checked")
	}
	return nil
}

func TestC17(t *testing.T) {
	(&pbt.Check{
		ID:          "C17",
		Rule:        "registration sequences over 2..4 validators x 3 chains x small pools of external keys and orchestrator accounts (incl. other validators' own accounts): fresh, reused across validators/chains, re-registration, future/stale sequence number, signature by another key / over another validator / corrupted / replayed, unknown validator; then claims through each orchestrator; the ante handler's sequence increment is emulated; non-trivial = a sequence with an address-reuse attempt and >=1 accepted registration; distinct = distinct case JSON",
		Gen:         genRegCase,
		New:         func() interface{} { return &RegCase{} },
		Run:         runRegCase,
		Assumptions: []string{"'own account' is GetSigners() of MsgDelegateKeys (the validator's account); signature verification of the transaction itself is the ante handler's job and not exercised", "a refused registration is a violation only when both the external key and the orchestrator account were never used on that chain"},
	}).Main(t)
}

func votersOf(r *mtypes.ExternalEventVoteRecord) []string {
	if r == nil {
		return nil
	}
	return r.Votes
}
