package props

import (
	"fmt"
	"testing"

	"verifharness/bridge"
	"verifharness/pbt"
)

func labelStats(rec *pbt.Rec, it *bridge.Interp, keys ...string) {
	for _, k := range keys {
		if it.Stats[k] > 0 {
			rec.Label(k)
		}
	}
}

func bucket(n int) string {
	switch {
	case n == 0:
		return "0"
	case n < 3:
		return "1-2"
	case n < 10:
		return "3-9"
	default:
		return "10+"
	}
}

var poolOpts = bridge.GenOpts{
	Decimals:    []uint64{0, 6, 8, 18, 24},
	Commissions: []string{"0", "0.01", "0.000000000000000001", "0.5"},
	PrefixIds:   true,
	Bursts:      true,
	MaxVals:     4,
}

// ---------------------------------------------------------------- C04

// c04Opts biases towards the paths where a transfer changes place more than
// once: batch timeouts, out-of-order executions, cancels, shared tx hashes.
func c04Opts() bridge.GenOpts {
	o := poolOpts
	o.HighCounters = true
	o.MaybeNoPrices = true
	o.Weights = map[string]int{"xtick": 14, "send2": 10, "cancel": 10, "burst": 1, "reqbatch": 10}
	o.EthTimeout = []uint64{60000, 60000, 150000}
	o.TimeoutMs = []uint64{20000, 60000, 20001, 86400000 - 1}
	return o
}

func TestC04(t *testing.T) {
	(&pbt.Check{
		ID:   "C04",
		Rule: "whole-bridge histories (send, cancel, request-batch, auto-batching, external deposits/transfers, batch execution in any order, external clock, expiry) on up to 3 chains x 3 denoms; non-trivial = a transfer went batch -> pool -> (batch again | refund), or one token had >100 unbatched transfers; distinct = distinct case JSON",
		Gen:  bridge.GenCase(c04Opts()),
		New:  func() interface{} { return &bridge.Case{} },
		Run: func(ci interface{}, rec *pbt.Rec) *pbt.Failure {
			c := ci.(*bridge.Case)
			pl := bridge.NewPlacement()
			it := bridge.NewInterp(c, "C04", pl)
			f := it.Run()
			rec.NonTrivial = pl.Returned > 0 || pl.Big > 0
			rec.Label("returned-to-pool=" + bucket(pl.Returned))
			rec.Label("rebatched=" + bucket(pl.Rebatched))
			labelStats(rec, it, "exec-batch", "cancel-ok", "exec-valset")
			if it.FailedProp() != "" {
				rec.Label("stopped-by:" + it.FailedKey())
			}
			return f
		},
		Assumptions: []string{"external chains are the abstract world of bridge/world.go (contract rule: batch nonce per token increasing, block < timeout; Minter multisig: strict sequence order)", "one send per transaction (status is keyed by tx hash)"},
	}).Main(t)
}

// ---------------------------------------------------------------- C10

func c10Opts() bridge.GenOpts {
	o := poolOpts
	o.HighCounters = true
	o.TopFees = true
	o.Weights = map[string]int{"xtopfee": 3}
	return o
}

func TestC10(t *testing.T) {
	(&pbt.Check{
		ID:   "C10",
		Rule: "same histories as C04 with permissionless batch requests at any time, Minter coin ids 1/10/101, bursts of >100 sends per token; non-trivial = a batch was created while a prefix-related token or >100 candidates were unbatched; distinct = distinct case JSON",
		Gen:  bridge.GenCase(c10Opts()),
		New:  func() interface{} { return &bridge.Case{} },
		Run: func(ci interface{}, rec *pbt.Rec) *pbt.Failure {
			c := ci.(*bridge.Case)
			bf := bridge.NewBatchForm()
			it := bridge.NewInterp(c, "C10", bf)
			f := it.Run()
			rec.NonTrivial = bf.Interesting > 0
			rec.Label("interesting-batches=" + bucket(bf.Interesting))
			labelStats(rec, it, "reqbatch-ok", "exec-batch")
			if it.FailedProp() != "" {
				rec.Label("stopped-by:" + it.FailedKey())
			}
			return f
		},
		Assumptions: []string{"a batch is 'offered for signing' as soon as it is stored as an outgoing tx"},
	}).Main(t)
}

// ---------------------------------------------------------------- C12

func TestC12(t *testing.T) {
	o := poolOpts
	o.Bursts = false
	o.Weights = map[string]int{"cancel": 16, "transfer": 10, "block": 22, "xwhale": 3}
	o.TimeoutMs = []uint64{20000, 60000, 20001, 60001}
	(&pbt.Check{
		ID:   "C12",
		Rule: "histories biased to cancels (own/foreign sender, batched, unknown, repeated ids), cross-chain transfers and block times around the outgoing timeout; non-trivial = a refund of a cross-chain transfer, or a cancel of a batched id, or a repeated cancel; distinct = distinct case JSON",
		Gen:  bridge.GenCase(o),
		New:  func() interface{} { return &bridge.Case{} },
		Run: func(ci interface{}, rec *pbt.Rec) *pbt.Failure {
			c := ci.(*bridge.Case)
			rf := bridge.NewRefunds()
			it := bridge.NewInterp(c, "C12", rf)
			f := it.Run()
			rec.NonTrivial = rf.CrossRefund > 0 || rf.Race > 0 || rf.SecondCancel > 0
			rec.Label("cancel-ok=" + bucket(rf.CancelOK))
			rec.Label("cancel-refused=" + bucket(rf.CancelBad))
			rec.Label("expiry-refunds-checked=" + bucket(rf.ExpiryChecked))
			rec.Label("cross-chain-refunds=" + bucket(rf.CrossRefund))
			if it.FailedProp() != "" {
				rec.Label("stopped-by:" + it.FailedKey())
			}
			return f
		},
		Assumptions: []string{"exact refund amounts at expiry are compared in EndBlocks that applied no external event (otherwise deposits and refunds mix in one balance delta); once-ness and removal are checked always", "internal payout legs (fee/commission/refund transfers sent by the module's transit account) have no refund party and are out of scope"},
	}).Main(t)
}

// ---------------------------------------------------------------- C13

func TestC13(t *testing.T) {
	o := poolOpts
	o.Bursts = false
	o.Weights = map[string]int{"exec": 10, "xexec": 18, "xtick": 12, "tick": 6, "hb": 4, "reqbatch": 14, "relay": 10, "send": 36, "xlag": 6, "byz": 14, "deposit": 8, "xbyzdep": 5, "xfull": 2}
	o.EthTimeout = []uint64{60000, 150000}
	o.Denoms = 3
	o.BlockTimes = true
	o.ByzHeights = true
	o.HighCounters = true
	o.MaybeNoPrices = true
	(&pbt.Check{
		ID:   "C13",
		Rule: "batch histories on ethereum/bsc/minter with several tokens, generated external clock, executions in any admissible order, observed heights around each timeout; non-trivial = an execution or a BeginBlock processed while >=3 batches of >=2 tokens were pending and a batch was withdrawn or executed in the history; distinct = distinct case JSON",
		Gen:  bridge.GenCase(o),
		New:  func() interface{} { return &bridge.Case{} },
		Run: func(ci interface{}, rec *pbt.Rec) *pbt.Failure {
			c := ci.(*bridge.Case)
			iv := &bridge.Invalidation{}
			it := bridge.NewInterp(c, "C13", iv)
			f := it.Run()
			rec.NonTrivial = iv.Rich > 0 && (iv.Withdrawn > 0 || iv.ExecApplied > 0)
			rec.Label("withdrawn=" + bucket(iv.Withdrawn))
			rec.Label("executions-applied=" + bucket(iv.ExecApplied))
			if it.FailedProp() != "" {
				rec.Label("stopped-by:" + it.FailedKey())
			}
			return f
		},
		Assumptions: []string{"'can no longer execute' is judged by the abstract contract rule (batch nonce > last executed nonce of the token and block < timeout) in quick; C08's EVM world replays the rule against the real bytecode"},
	}).Main(t)
}

var _ = fmt.Sprint

// ---------------------------------------------------------------- C01

func c01Opts() bridge.GenOpts {
	o := poolOpts
	o.Bursts = false
	o.NoFunds = true
	o.BigAmounts = true
	o.Holders = true
	o.Weights = map[string]int{"deposit": 16, "transfer": 14, "send": 26, "xexec": 14, "cancel": 8, "send2": 3, "byz": 7, "xround": 5, "xbyzexec": 5, "xbyzdep": 4}
	o.MaxVals = 5
	o.TimeoutMs = []uint64{20000, 60000, 20001, 86400000 - 1}
	o.SharedAddr = true
	o.ByzHeights = true
	return o
}

func TestC01(t *testing.T) {
	(&pbt.Check{
		ID:   "C01",
		Rule: "whole-bridge histories in which hub users own nothing but what external deposits brought in: deposits and cross-chain transfers of any amount/fee/destination (decimals 0..24, commissions, holder discounts), sends, cancels, batch requests, executions, timeouts, expiry, and a Byzantine validator (< 1/3 of the power) claiming mutated copies of external events before the honest ones; after every step supply + in-flight - executed-but-unobserved <= custody in exact rationals; non-trivial = >=1 applied deposit with fee>0 or decimals!=18, >=1 executed batch and >=1 cancel/expiry/timeout; distinct = distinct case JSON",
		Gen:  bridge.GenCase(c01Opts()),
		New:  func() interface{} { return &bridge.Case{} },
		Run: func(ci interface{}, rec *pbt.Rec) *pbt.Failure {
			c := ci.(*bridge.Case)
			sv := &bridge.Solvency{}
			pl := bridge.NewPlacement()
			it := bridge.NewInterp(c, "C01", sv, pl)
			it.Lenient = true // the placement checker only feeds the non-trivial rule here
			it.NoHash = true
			f := it.Run()
			odd := false
			for _, tk := range c.Cfg.Tokens {
				if tk.Decimals != 18 {
					odd = true
				}
			}
			rec.NonTrivial = (it.Stats["transfer"] > 0 || (odd && it.Stats["deposit"] > 0)) && it.Stats["exec-batch"] > 0 && (it.Stats["cancel-ok"] > 0 || pl.Returned > 0)
			labelStats(rec, it, "deposit", "transfer", "exec-batch", "cancel-ok", "send-ok", "byz-claim")
			if pl.Returned > 0 {
				rec.Label("batch-timeout-or-older-cancel")
			}
			if it.FailedProp() != "" {
				rec.Label("stopped-by:" + it.FailedKey())
			}
			if it.Foreign != "" {
				rec.Label("other-property-diverged:" + it.Foreign)
			}
			return f
		},
		Assumptions: []string{"custody is what the abstract external chains hold: deposits lock exactly the event's amount (as Hub2.transferToChain and the Minter multisig do), executed batches pay out the amounts of their members (Hub2.submitBatch and the Minter multisend transfer amounts only; fees stay in custody)", "governance-initiated cold-storage transfers and token-info changes are outside the quantifier"},
	}).Main(t)
}
