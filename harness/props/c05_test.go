package props

import (
	"testing"

	"verifharness/bridge"
	"verifharness/pbt"
)

var c05Opts = bridge.GenOpts{
	Decimals:    []uint64{0, 6, 8, 18, 24},
	Commissions: []string{"0", "0.01", "0.000000000000000001", "0.5", "0.99"},
	PrefixIds:   true,
	Bursts:      true,
	BigAmounts:  true,
	MaxVals:     5,
	Denoms:      3,
	Holders:     true,
	Weights:     map[string]int{"burst": 3, "hostile": 10, "oprice": 3, "oholders": 3, "byz": 3, "sign": 2, "send2": 3},
}

func TestC05(t *testing.T) {
	(&pbt.Check{
		ID:   "C05",
		Rule: "whole-bridge histories incl. bursts of 30-120 sends in one block, 2^200-scale amounts, decimals 0..24, tiny commissions, many validators, time jumps; every Begin/EndBlocker runs under a watchdog on the cache-wrapped store; non-trivial = a block applied >=1 external event and the history held a burst (>64 pool writes in one block) or an executed batch; distinct = distinct case JSON",
		Gen:  bridge.GenCase(c05Opts),
		New:  func() interface{} { return &bridge.Case{} },
		Run: func(ci interface{}, rec *pbt.Rec) *pbt.Failure {
			c := ci.(*bridge.Case)
			it := bridge.NewInterp(c, "C05")
			it.NoHash = true
			f := it.Run()
			rec.NonTrivial = it.Stats["op:burst"] > 0 || it.Stats["exec-batch"] > 0 || it.Stats["hostile-event"] > 0
			labelStats(rec, it, "op:burst", "exec-batch", "handler-panic", "exec-valset", "hostile-event")
			if it.FailedProp() != "" {
				rec.Label("stopped-by:" + it.FailedKey())
			}
			return f
		},
		Assumptions: []string{"a deadlock is declared only for the structural signature described in DESIGN.md 2.1 (MemDB write lock wanted under an open MemDB iterator); any other overrun is reported as inconclusive"},
	}).Main(t)
}
