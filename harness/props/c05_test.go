package props

import (
	"testing"

	"pgregory.net/rapid"

	"verifharness/bridge"
	"verifharness/pbt"
)

var c05Opts = bridge.GenOpts{
	Decimals:      []uint64{0, 6, 8, 18, 24},
	Commissions:   []string{"0", "0.01", "0.000000000000000001", "0.5", "0.99"},
	PrefixIds:     true,
	Bursts:        true,
	BigAmounts:    true,
	Whale:         true,
	BlockTimes:    true,
	MaybeNoPrices: true,
	MaxVals:       5,
	Denoms:        3,
	Holders:       true,
	Weights:       map[string]int{"burst": 3, "hostile": 10, "oprice": 3, "oholders": 3, "byz": 3, "sign": 2, "send2": 3, "xwhale": 3, "xdelist": 2},
}

func TestC05(t *testing.T) {
	(&pbt.Check{
		ID:   "C05",
		Part: "bridge",
		Rule: "whole-bridge histories incl. bursts of 30-120 sends in one block, 2^200-scale amounts, decimals 0..24, tiny commissions, many validators, time jumps, a token delisted by governance while its transfers wait (terminal macro xdelist); every Begin/EndBlocker runs under a watchdog on the cache-wrapped store; non-trivial = a block applied >=1 external event and the history held a burst (>64 pool writes in one block) or an executed batch; distinct = distinct case JSON",
		Gen:  bridge.GenCase(c05Opts),
		New:  func() interface{} { return &bridge.Case{} },
		Run: func(ci interface{}, rec *pbt.Rec) *pbt.Failure {
			c := ci.(*bridge.Case)
			it := bridge.NewInterp(c, "C05")
			it.NoHash = true
			f := it.Run()
			rec.NonTrivial = it.Stats["op:burst"] > 0 || it.Stats["exec-batch"] > 0 || it.Stats["hostile-event"] > 0
			labelStats(rec, it, "op:burst", "exec-batch", "handler-panic", "exec-valset", "hostile-event", "op:delist")
			if it.FailedProp() != "" {
				rec.Label("stopped-by:" + it.FailedKey())
			}
			return f
		},
		Assumptions: []string{"a deadlock is declared only for the structural signature described in DESIGN.md 2.1 (MemDB write lock wanted under an open MemDB iterator); a blocker still running after 21 watchdog periods (63 s against milliseconds) with a goroutine inside it is reported as non-termination; an overrun without that is inconclusive"},
	}).Main(t)
}

// TestC05Oracle: oracle claim histories with hostile contents; only a panicking or hanging blocker is reported.
func TestC05Oracle(t *testing.T) {
	(&pbt.Check{
		ID:   "C05",
		Part: "oracle",
		Rule: "oracle claim histories (as C18: repeated, stale, future claims, stake changes, unbonding) whose claims also carry negative / duplicate / 10^58 / empty-named / unset prices and negative / empty / 300-entry / unset / nil holder lists; BeginBlocker and both EndBlockers run under the watchdog through every epoch boundary; non-trivial = every history that reaches an epoch boundary; distinct = distinct case JSON",
		Gen: func(t *rapid.T) interface{} {
			c := genOrCase(t).(*OrCase)
			c.Hostile = true
			return c
		},
		New: func() interface{} { return &OrCase{} },
		Run: func(ci interface{}, rec *pbt.Rec) *pbt.Failure {
			f := runOrCaseMode(ci, rec, true)
			blocks := 0
			for _, op := range ci.(*OrCase).Ops {
				if op.Kind == "block" {
					blocks++
				}
			}
			rec.NonTrivial = blocks >= 5
			return f
		},
		Assumptions: []string{"claims that fail stateless validation or the handler's own checks are simply rejected; only blockers are judged here"},
	}).Main(t)
}

// TestC05Claims: the claim histories of C02/C03 (conflicting, skipped, repeated claims, stake changes, key rotation);
// only a panicking or hanging blocker is reported.
func TestC05Claims(t *testing.T) {
	(&pbt.Check{
		ID:   "C05",
		Part: "claims",
		Rule: "claim histories as in C02/C03 (validators ahead/behind, conflicting claims that split the power at one nonce while the next one is agreed, repeats, stake changes, unbonding, key rotation); BeginBlocker and both EndBlockers must return at every block; non-trivial = a history with conflicting claims at some nonce or >=1 applied event; distinct = distinct case JSON",
		Gen:  genAttCase,
		New:  func() interface{} { return &AttCase{} },
		Run: func(ci interface{}, rec *pbt.Rec) *pbt.Failure {
			f := runAttCase("C05")(ci, rec)
			rec.NonTrivial = true
			return f
		},
	}).Main(t)
}
