package props

import (
	"fmt"
	"math/big"
	"sort"
	"testing"

	sdk "github.com/cosmos/cosmos-sdk/types"
	"github.com/ethereum/go-ethereum/common"
	ethcrypto "github.com/ethereum/go-ethereum/crypto"
	"pgregory.net/rapid"

	mtypes "github.com/MinterTeam/mhub2/module/x/mhub2/types"

	"verifharness/pbt"
	"verifharness/sim"
)

// C09: published signer sets mirror bonded voting power.

type SetVal struct {
	Power  int64 `json:"power"`
	Bonded bool  `json:"bonded"`
	Keys   int   `json:"keys"` // bit mask: 1 ethereum, 2 bsc, 4 minter
}

type SetOp struct {
	Kind  string `json:"kind"` // power | unbond | rebond | register | observe | block
	Val   int    `json:"val"`
	Power int64  `json:"power,omitempty"`
	Chain int    `json:"chain,omitempty"`
}

type SetCase struct {
	Window uint64   `json:"window"` // SignedSignerSetTxsWindow: sets older than this and below the observed nonce are pruned
	Vals   []SetVal `json:"vals"`
	Ops    []SetOp  `json:"ops"`
}

var setChains = []string{"ethereum", "bsc", "minter"}

func genSetCase(t *rapid.T) interface{} {
	c := &SetCase{Window: rapid.SampledFrom([]uint64{1, 2, 5, 10000}).Draw(t, "window")}
	n := rapid.SampledFrom([]int{1, 2, 3, 3, 4, 5, 7, 10, 20, 40}).Draw(t, "nvals")
	dist := rapid.IntRange(0, 4).Draw(t, "dist")
	pow := func(i int) int64 {
		switch dist {
		case 0:
			return 100 // all equal
		case 1: // one dominant
			if i == 0 {
				return 99 * int64(n) * 100
			}
			return 100
		case 2:
			return rapid.Int64Range(1, 5).Draw(t, "p")
		case 3:
			return rapid.SampledFrom([]int64{1, 1, 2, 1000, 1 << 20, 1 << 40, 1 << 56}).Draw(t, "p")
		default:
			return rapid.Int64Range(1, 1000000).Draw(t, "p")
		}
	}
	for i := 0; i < n; i++ {
		c.Vals = append(c.Vals, SetVal{Power: pow(i), Bonded: i == 0 || rapid.IntRange(0, 9).Draw(t, "bonded") < 8,
			Keys: rapid.SampledFrom([]int{7, 7, 7, 7, 3, 5, 1, 0}).Draw(t, "keys")})
	}
	if rapid.IntRange(0, 9).Draw(t, "anchor-has-keys") < 7 {
		c.Vals[0].Keys = 7 // (validator 0 never unbonds; when it lacks a key on a chain, that chain's set can become empty)
	}
	nops := rapid.IntRange(4, 50).Draw(t, "nops")
	for i := 0; i < nops; i++ {
		k := rapid.IntRange(0, 99).Draw(t, "k")
		op := SetOp{Val: rapid.IntRange(0, n-1).Draw(t, "val")}
		switch {
		case k < 30:
			op.Kind = "power"
			cur := c.Vals[op.Val].Power
			switch rapid.IntRange(0, 3).Draw(t, "how") {
			case 0: // small drift, around the 5% boundary
				op.Power = cur + cur*int64(rapid.IntRange(1, 8).Draw(t, "pct"))/100 + int64(rapid.IntRange(0, 1).Draw(t, "one"))
			case 1:
				op.Power = cur / 2
			default:
				op.Power = pow(op.Val)
			}
			if op.Power < 1 {
				op.Power = 1
			}
		case k < 38:
			op.Kind = "unbond"
		case k < 46:
			op.Kind = "rebond"
		case k < 54:
			op.Kind = "register"
			op.Chain = rapid.IntRange(0, 2).Draw(t, "chain")
		case k < 62:
			op.Kind = "observe" // the validators report that the external chain adopted a published set
			op.Chain = rapid.IntRange(0, 2).Draw(t, "chain")
			op.Val = rapid.IntRange(0, 3).Draw(t, "which") // 0 = the latest set, otherwise an older one
		default:
			op.Kind = "block"
		}
		c.Ops = append(c.Ops, op)
	}
	return c
}

func runSetCase(ci interface{}, rec *pbt.Rec) *pbt.Failure {
	c := ci.(*SetCase)
	cfg := sim.Config{Tokens: attTokens, Prices: []sim.PriceCfg{{Name: "hub", Value: "1"}}, SignerSetWindow: c.Window}
	hasKey := map[string]map[int]bool{}
	evNonce := map[string]uint64{}
	observed := 0
	for _, ch := range setChains {
		hasKey[ch] = map[int]bool{}
	}
	for i, v := range c.Vals {
		vc := sim.ValCfg{Power: v.Power, Bonded: v.Bonded}
		for b, ch := range setChains {
			if v.Keys&(1<<uint(b)) != 0 {
				vc.Keys = append(vc.Keys, ch)
				hasKey[ch][i] = true
			}
		}
		cfg.Vals = append(cfg.Vals, vc)
	}
	h := sim.NewHub(cfg)
	height, now := int64(0), int64(1600000000)
	lastNonce := map[string]uint64{}
	tieOrder := map[string]bool{} // "a<b" seen among equal powers
	var ties, memberChanges, nearDrift, published int
	prevMembers := map[string]string{}
	max32 := big.NewInt(1<<32 - 1)

	begin := func() *pbt.Failure {
		height++
		now += 5
		if err := h.Begin(height, now); err != nil {
			return nil // C05's subject
		}
		ctx := h.Ctx()
		for _, ch := range setChains {
			// expected membership and stake at this moment
			type mem struct {
				addr  common.Address
				stake int64
			}
			var exp []mem
			total := new(big.Int)
			for i := range c.Vals {
				sv := h.Staking.Vals[i]
				if sv.Bonded && hasKey[ch][i] {
					exp = append(exp, mem{sim.EthAddr(i, ch, 0), sv.Power})
					total.Add(total, big.NewInt(sv.Power))
				}
			}
			sets := h.SignerSets(ch)
			if len(sets) == 0 {
				return pbt.Failf("no-signer-set", "%s: no signer set published after BeginBlock of height %d", ch, height)
			}
			for _, ss := range sets {
				if ss.Nonce <= lastNonce[ch] {
					continue
				}
				published++
				if ss.Nonce != lastNonce[ch]+1 {
					return pbt.Failf("signer-set-nonce-gap", "%s: new signer set has nonce %d, previous was %d", ch, ss.Nonce, lastNonce[ch])
				}
				lastNonce[ch] = ss.Nonce
				// membership
				got := map[common.Address]uint64{}
				for _, m := range ss.Signers {
					a := common.HexToAddress(m.ExternalAddress)
					if _, dup := got[a]; dup {
						return pbt.Failf("member-twice", "%s: set %d lists %s twice", ch, ss.Nonce, a.Hex())
					}
					got[a] = m.Power
				}
				var key []string
				for _, e := range exp {
					key = append(key, e.addr.Hex())
					if _, ok := got[e.addr]; !ok {
						return pbt.Failf("member-missing", "%s: set %d misses bonded validator %s (stake %d) which registered a key", ch, ss.Nonce, e.addr.Hex(), e.stake)
					}
				}
				if len(got) != len(exp) {
					return pbt.Failf("member-extra", "%s: set %d has %d members, %d bonded validators registered a key for this chain", ch, ss.Nonce, len(got), len(exp))
				}
				sort.Strings(key)
				ks := fmt.Sprint(key)
				if prev, ok := prevMembers[ch]; ok && prev != ks {
					memberChanges++
				}
				prevMembers[ch] = ks
				// powers: within one unit of stake*(2^32-1)/total, sum <= 2^32-1
				sum := new(big.Int)
				for _, e := range exp {
					p := new(big.Int).SetUint64(got[e.addr])
					sum.Add(sum, p)
					ideal := new(big.Rat).SetFrac(new(big.Int).Mul(big.NewInt(e.stake), max32), total)
					d := new(big.Rat).Sub(new(big.Rat).SetInt(p), ideal)
					if d.Abs(d).Cmp(big.NewRat(1, 1)) >= 0 {
						return pbt.Failf("power-not-proportional", "%s: set %d gives %s power %s, proportional share of stake %d/%s is %s", ch, ss.Nonce, e.addr.Hex(), p, e.stake, total, ideal.FloatString(3))
					}
				}
				if sum.Cmp(max32) > 0 {
					return pbt.Failf("power-sum-above-2^32", "%s: set %d powers sum to %s", ch, ss.Nonce, sum)
				}
				// order
				for i := 1; i < len(ss.Signers); i++ {
					a, b := ss.Signers[i-1], ss.Signers[i]
					if a.Power < b.Power {
						return pbt.Failf("order-not-by-power", "%s: set %d lists power %d before %d", ch, ss.Nonce, a.Power, b.Power)
					}
					if a.Power == b.Power {
						ties++
						if tieOrder[b.ExternalAddress+"<"+a.ExternalAddress] {
							return pbt.Failf("tie-break-not-deterministic", "%s: %s and %s (equal power) appear in both orders", ch, a.ExternalAddress, b.ExternalAddress)
						}
						tieOrder[a.ExternalAddress+"<"+b.ExternalAddress] = true
					}
				}
				// the constructor orders any permutation of the same members identically
				perm := make(mtypes.ExternalSigners, len(ss.Signers))
				for i := range ss.Signers {
					cp := *ss.Signers[(i*7+3)%len(ss.Signers)]
					if len(ss.Signers)%7 == 0 {
						cp = *ss.Signers[len(ss.Signers)-1-i]
					}
					perm[i] = &cp
				}
				re := mtypes.NewSignerSetTx(ss.Nonce, ss.Height, perm)
				seen := map[string]bool{}
				for _, m := range re.Signers {
					seen[m.ExternalAddress] = true
				}
				if len(seen) == len(ss.Signers) {
					for i := range re.Signers {
						if re.Signers[i].ExternalAddress != ss.Signers[i].ExternalAddress {
							return pbt.Failf("order-depends-on-input-order", "%s: set %d rebuilt from a permutation of its members is ordered differently at position %d", ch, ss.Nonce, i)
						}
					}
				}
			}
			// drift of the latest set against the current validator set
			latest := sets[len(sets)-1]
			cur := h.K.CurrentSignerSet(ctx, mtypes.ChainID(ch))
			diff := new(big.Int)
			pm := map[string]int64{}
			for _, m := range cur {
				pm[m.ExternalAddress] += int64(m.Power)
			}
			for _, m := range latest.Signers {
				pm[m.ExternalAddress] -= int64(m.Power)
			}
			for _, v := range pm {
				if v < 0 {
					v = -v
				}
				diff.Add(diff, big.NewInt(v))
			}
			// diff/(2^32-1) <= 0.05  <=>  20*diff <= 2^32-1
			lhs := new(big.Int).Mul(diff, big.NewInt(20))
			if lhs.Cmp(max32) > 0 {
				return pbt.Failf("latest-set-drifted", "%s: after BeginBlock of height %d the latest set (nonce %d) differs from the current validator set by %s of 2^32-1 (> 5%%)", ch, height, latest.Nonce, diff)
			}
			if new(big.Int).Mul(diff, big.NewInt(25)).Cmp(max32) > 0 || (diff.Sign() > 0 && new(big.Int).Mul(diff, big.NewInt(17)).Cmp(max32) > 0) {
				nearDrift++
			}
		}
		return nil
	}

	if f := begin(); f != nil {
		return f
	}
	for _, op := range c.Ops {
		v := op.Val % len(c.Vals)
		switch op.Kind {
		case "block":
			if err := h.End(); err != nil {
				return nil
			}
			if f := begin(); f != nil {
				return f
			}
		case "power":
			p := op.Power
			h.QueueStaking(func(s *sim.SimStaking) { s.Vals[v].Power = p })
		case "unbond":
			h.QueueStaking(func(s *sim.SimStaking) {
				n := 0
				for _, x := range s.Vals {
					if x.Bonded {
						n++
					}
				}
				if n > 1 && v != 0 {
					s.Vals[v].Bonded, s.Vals[v].Unbonding = false, true
				}
			})
		case "rebond":
			h.QueueStaking(func(s *sim.SimStaking) { s.Vals[v].Bonded, s.Vals[v].Unbonding = true, false })
		case "observe":
			ch := setChains[op.Chain%3]
			sets := h.SignerSets(ch)
			if len(sets) == 0 {
				break
			}
			ss := sets[len(sets)-1]
			if op.Val > 0 && len(sets) > op.Val {
				ss = sets[len(sets)-1-op.Val]
			}
			evNonce[ch]++
			any, _ := mtypes.PackEvent(&mtypes.SignerSetTxExecutedEvent{EventNonce: evNonce[ch], SignerSetTxNonce: ss.Nonce, ExternalHeight: 100 + evNonce[ch], Members: ss.Signers, TxHash: "0x5e7"})
			for vi, sv := range h.Staking.Vals {
				if sv.Bonded {
					h.Deliver(&mtypes.MsgSubmitExternalEvent{Event: any, Signer: sdk.AccAddress(sim.ValAddr(vi)).String(), ChainId: ch})
				}
			}
			observed++
		case "register":
			ch := setChains[op.Chain%3]
			if hasKey[ch][v] {
				break
			}
			ctx := h.Ctx()
			acc := sdk.AccAddress(sim.ValAddr(v))
			a := h.Acc.GetAccount(ctx, acc)
			seq := a.GetSequence()
			bz := h.Cdc.MustMarshal(&mtypes.DelegateKeysSignMsg{ValidatorAddress: sim.ValAddr(v).String(), Nonce: seq})
			sig, _ := mtypes.NewEthereumSignature(ethcrypto.Keccak256Hash(bz).Bytes(), sim.EthKey(v, ch, 0))
			a.SetSequence(seq + 1)
			h.Acc.SetAccount(ctx, a)
			res := h.Deliver(&mtypes.MsgDelegateKeys{ValidatorAddress: sim.ValAddr(v).String(), OrchestratorAddress: sim.OrchAddr(v).String(), ExternalAddress: sim.EthAddr(v, ch, 0).Hex(), EthSignature: sig, ChainId: ch})
			if res.Err == nil {
				hasKey[ch][v] = true
			}
		}
	}
	rec.NonTrivial = ties > 0 || memberChanges > 0 || nearDrift > 0
	rec.Label("sets-published=" + bucket(published))
	if ties > 0 {
		rec.Label("equal-power-members")
	}
	if memberChanges > 0 {
		rec.Label("membership-change")
	}
	if nearDrift > 0 {
		rec.Label("drift-4-to-6-percent")
	}
	if observed > 0 && c.Window < 100 {
		rec.Label("observed-set-with-short-prune-window")
	}
	return nil
}

func TestC09(t *testing.T) {
	(&pbt.Check{
		ID:          "C09",
		Rule:        "validator sets of 1..40 validators (all equal, one with 99%, powers 1..2^56, per-chain key subsets) under power changes (incl. drifts around 5%), unbonding, rebonding and key registration across blocks; every newly published signer set and the state after every BeginBlock are judged in exact rationals; non-trivial = >=2 equal-power members, or a membership change, or a drift between 4% and 6%; distinct = distinct case JSON",
		Gen:         genSetCase,
		New:         func() interface{} { return &SetCase{} },
		Run:         runSetCase,
		Assumptions: []string{"staking is the harness's SimStaking double (total power below 2^62, as x/staking guarantees int64 totals)", "the tie-break is accepted as deterministic when no pair of equal-power members ever appears in both orders and the constructor orders every permutation of a set identically"},
	}).Main(t)
}
