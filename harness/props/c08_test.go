package props

import (
	"bytes"
	"fmt"
	"math/big"
	"sort"
	"strings"
	"testing"

	sdk "github.com/cosmos/cosmos-sdk/types"
	"github.com/ethereum/go-ethereum/common"
	"pgregory.net/rapid"

	mtypes "github.com/MinterTeam/mhub2/module/x/mhub2/types"

	"verifharness/evm"
	"verifharness/pbt"
	"verifharness/sim"
)

// C08: the full loop hub -> confirmations -> relayer -> real Hub2 bytecode -> events -> hub.

type LoopOp struct {
	Kind string `json:"kind"` // send | reqbatch | block | power | unbond | rebond | sign | valset | batch | tick | deposit | feed
	Val  int    `json:"val,omitempty"`
	User int    `json:"user,omitempty"`
	Amt  int64  `json:"amt,omitempty"`
	Fee  int64  `json:"fee,omitempty"`
	Pow  int64  `json:"pow,omitempty"`
	Mask int    `json:"mask,omitempty"` // which validators sign
	Pick int    `json:"pick,omitempty"`
	Mode int    `json:"mode,omitempty"` // relayer: 0 all confirmations, 1 smallest sufficient subset, 2 largest insufficient subset, 3 oldest instead of newest
	N    int    `json:"n,omitempty"`
}

type LoopCase struct {
	Timeout uint64   `json:"timeout_ms"`
	Powers  []int64  `json:"powers"`
	NoKey   []bool   `json:"no_key"`
	Ops     []LoopOp `json:"ops"`
}

const contractThreshold = 2863311530

func genLoopCase(t *rapid.T) interface{} {
	c := &LoopCase{Timeout: rapid.SampledFrom([]uint64{60000, 600000, 86400000}).Draw(t, "timeout")}
	n := rapid.IntRange(1, 6).Draw(t, "nvals")
	dist := rapid.IntRange(0, 3).Draw(t, "dist")
	for i := 0; i < n; i++ {
		var p int64
		switch dist {
		case 0:
			p = 100
		case 1:
			p = rapid.Int64Range(1, 5).Draw(t, "p")
		case 2:
			p = rapid.SampledFrom([]int64{1, 10, 100, 1000, 1 << 30, 1 << 33, 6000000000, 1 << 40}).Draw(t, "p") // consensus power is an int64: above 2^32 with an 18-decimals staking token
		default:
			p = rapid.Int64Range(1, 1000).Draw(t, "p")
		}
		c.Powers = append(c.Powers, p)
		c.NoKey = append(c.NoKey, i > 0 && rapid.IntRange(0, 7).Draw(t, "nokey") == 0)
	}
	nops := rapid.IntRange(8, 60).Draw(t, "nops")
	for i := 0; i < nops; i++ {
		k := rapid.IntRange(0, 99).Draw(t, "k")
		op := LoopOp{}
		switch {
		case k < 0:
		case k < 14:
			op.Kind = "send"
			op.User = rapid.IntRange(0, 2).Draw(t, "user")
			op.Amt = rapid.Int64Range(1, 100000).Draw(t, "amt")
			op.Fee = rapid.Int64Range(0, 500).Draw(t, "fee")
		case k < 20:
			op.Kind = "reqbatch"
		case k < 38:
			op.Kind = "block"
		case k < 46:
			op.Kind = "power"
			op.Val = rapid.IntRange(0, n-1).Draw(t, "val")
			op.Pow = rapid.SampledFrom([]int64{1, 2, 50, 100, 200, 1000, 5000}).Draw(t, "pow")
		case k < 49:
			op.Kind = "unbond"
			op.Val = rapid.IntRange(0, n-1).Draw(t, "val")
		case k < 52:
			op.Kind = "rebond"
			op.Val = rapid.IntRange(0, n-1).Draw(t, "val")
		case k < 66:
			op.Kind = "sign"
			op.Mask = rapid.SampledFrom([]int{63, 63, 63, 62, 31, 21, 42, 7, 1, 0}).Draw(t, "mask")
		case k < 76:
			op.Kind = "valset"
			op.Mode = rapid.SampledFrom([]int{0, 0, 1, 2, 3}).Draw(t, "mode")
		case k < 86:
			op.Kind = "batch"
			op.Pick = rapid.IntRange(0, 5).Draw(t, "pick")
			op.Mode = rapid.SampledFrom([]int{0, 0, 1, 2}).Draw(t, "mode")
		case k < 90:
			op.Kind = "tick"
			op.N = rapid.SampledFrom([]int{1, 3, 10, 100}).Draw(t, "n")
		case k < 94:
			op.Kind = "deposit"
			op.User = rapid.IntRange(0, 2).Draw(t, "user")
			op.Amt = rapid.Int64Range(1, 1000000).Draw(t, "amt")
		default:
			op.Kind = "feed"
		}
		// macro sequences reach the deep states (a batch executed under a rotated set) within a few ops
		if m := rapid.IntRange(0, 9).Draw(t, "macro"); m < 3 {
			mode := rapid.SampledFrom([]int{0, 0, 1, 2}).Draw(t, "mmode")
			mask := rapid.SampledFrom([]int{63, 63, 63, 62, 31, 21}).Draw(t, "mmask")
			if m == 0 {
				v := rapid.IntRange(0, n-1).Draw(t, "mval")
				pw := rapid.SampledFrom([]int64{1, 2, 50, 100, 200, 1000, 5000}).Draw(t, "mpow")
				c.Ops = append(c.Ops, LoopOp{Kind: "power", Val: v, Pow: pw}, LoopOp{Kind: "block"}, LoopOp{Kind: "block"}, LoopOp{Kind: "sign", Mask: mask},
					LoopOp{Kind: "valset", Mode: mode}, LoopOp{Kind: "feed"}, LoopOp{Kind: "block"})
			} else {
				u := rapid.IntRange(0, 2).Draw(t, "muser")
				c.Ops = append(c.Ops, LoopOp{Kind: "send", User: u, Amt: rapid.Int64Range(1, 100000).Draw(t, "mamt"), Fee: rapid.Int64Range(0, 500).Draw(t, "mfee")},
					LoopOp{Kind: "reqbatch"}, LoopOp{Kind: "sign", Mask: mask}, LoopOp{Kind: "batch", Pick: rapid.IntRange(0, 5).Draw(t, "mpick"), Mode: mode}, LoopOp{Kind: "feed"}, LoopOp{Kind: "block"})
			}
			continue
		}
		c.Ops = append(c.Ops, op)
	}
	return c
}

type loopWorld struct {
	ch      *evm.Chain
	token   common.Address
	cur     evm.SignerSet // what the contract currently holds
	seenEv  uint64        // contract events already turned into claims
	pending []mtypes.ExternalEvent
	relayer common.Address
}

func toEvmSet(ss *mtypes.SignerSetTx) evm.SignerSet {
	out := evm.SignerSet{Nonce: new(big.Int).SetUint64(ss.Nonce)}
	for _, m := range ss.Signers {
		out.Vals = append(out.Vals, common.HexToAddress(m.ExternalAddress))
		out.Powers = append(out.Powers, new(big.Int).SetUint64(m.Power))
	}
	return out
}

// collect turns new contract logs into the claims an honest orchestrator submits.
func (w *loopWorld) collect() {
	for _, ev := range w.ch.DecodeLogs(w.ch.NewLogs()) {
		h := fmt.Sprintf("0x%064x", len(w.pending)+int(w.seenEv)+1)
		switch ev.Name {
		case "ValsetUpdatedEvent":
			e := &mtypes.SignerSetTxExecutedEvent{EventNonce: ev.Fields["_eventNonce"].(*big.Int).Uint64(), SignerSetTxNonce: ev.Fields["_newValsetNonce"].(*big.Int).Uint64(), ExternalHeight: ev.Block, TxHash: h}
			vals := ev.Fields["_validators"].([]common.Address)
			pows := ev.Fields["_powers"].([]*big.Int)
			for i := range vals {
				e.Members = append(e.Members, &mtypes.ExternalSigner{Power: pows[i].Uint64(), ExternalAddress: vals[i].Hex()})
			}
			if e.Members == nil {
				e.Members = []*mtypes.ExternalSigner{}
			}
			w.pending = append(w.pending, e)
		case "TransactionBatchExecutedEvent":
			w.pending = append(w.pending, &mtypes.BatchExecutedEvent{ExternalCoinId: ev.Fields["_token"].(common.Address).Hex(), EventNonce: ev.Fields["_eventNonce"].(*big.Int).Uint64(),
				ExternalHeight: ev.Block, BatchNonce: ev.Fields["_batchNonce"].(*big.Int).Uint64(), TxHash: h, FeePaid: sdk.NewInt(21000), FeePayer: w.relayer.Hex()})
		case "TransferToChainEvent":
			dc := ev.Fields["_destinationChain"].([32]byte)
			dst := ev.Fields["_destination"].([32]byte)
			w.pending = append(w.pending, &mtypes.TransferToChainEvent{EventNonce: ev.Fields["_eventNonce"].(*big.Int).Uint64(), ExternalCoinId: ev.Fields["_tokenContract"].(common.Address).Hex(),
				Amount: sdk.NewIntFromBigInt(ev.Fields["_amount"].(*big.Int)), Fee: sdk.NewIntFromBigInt(ev.Fields["_fee"].(*big.Int)), Sender: ev.Fields["_sender"].(common.Address).Hex(),
				ReceiverChainId: strings.TrimRight(string(dc[:]), "\x00"), ExternalReceiver: common.BytesToAddress(dst[12:]).Hex(), ExternalHeight: ev.Block, TxHash: h})
		}
	}
}

func runLoopCase(ci interface{}, rec *pbt.Rec) *pbt.Failure {
	c := ci.(*LoopCase)
	nv := len(c.Powers)
	holder := common.HexToAddress("0x00000000000000000000000000000000000a11ce")
	w := &loopWorld{relayer: common.HexToAddress("0x00000000000000000000000000000000000be1a7")}

	// the token contract must exist before the hub is configured with its address
	tmp, err := evm.NewChain([32]byte{}, big.NewInt(0), []common.Address{holder}, []*big.Int{big.NewInt(1)}, 1)
	if err != nil {
		return pbt.Failf("harness", "%v", err)
	}
	_ = tmp
	cfg := sim.Config{GravityId: "verif-gravity", TargetEthTxTimeout: c.Timeout,
		Prices: []sim.PriceCfg{{Name: "hub", Value: "1"}, {Name: "eth", Value: "1"}, {Name: "bnb", Value: "1"}}}
	for i, p := range c.Powers {
		vc := sim.ValCfg{Power: p, Bonded: true, Keys: []string{"ethereum", "minter"}}
		if c.NoKey[i] {
			vc.Keys = []string{"minter"}
		}
		cfg.Vals = append(cfg.Vals, vc)
	}
	// deploy order is fixed, so the token address is known in advance: compute it on a scratch chain
	scratch, _ := evm.NewChain([32]byte{}, big.NewInt(0), []common.Address{holder}, []*big.Int{big.NewInt(1)}, 1)
	tokenAddr, err := scratch.DeployERC20(holder, 18)
	if err != nil {
		return pbt.Failf("harness", "erc20: %v", err)
	}
	token2Addr, err := scratch.DeployERC20(holder, 18)
	if err != nil {
		return pbt.Failf("harness", "erc20: %v", err)
	}
	cfg.Tokens = []sim.TokenCfg{
		{Id: 1, Denom: "hub", Chain: "ethereum", ExtId: tokenAddr.Hex(), Decimals: 18, Commission: "0.01"},
		{Id: 2, Denom: "hub", Chain: "minter", ExtId: "1", Decimals: 18, Commission: "0.01"},
		{Id: 3, Denom: "usdt", Chain: "ethereum", ExtId: token2Addr.Hex(), Decimals: 18, Commission: "0"},
		{Id: 4, Denom: "usdt", Chain: "minter", ExtId: "10", Decimals: 18, Commission: "0"},
	}
	cfg.Prices = append(cfg.Prices, sim.PriceCfg{Name: "usdt", Value: "1"})
	h := sim.NewHub(cfg)
	height, now := int64(1), int64(1600000005)
	if err := h.Begin(height, now); err != nil {
		return nil
	}
	sets := h.SignerSets("ethereum")
	if len(sets) == 0 || len(sets[0].Signers) == 0 {
		return nil
	}
	// deploy the contract with the hub's first signer set (as the deployer script does), nonce 0 on the contract side
	var gid [32]byte
	copy(gid[:], []byte(cfg.GravityId))
	first := toEvmSet(sets[0])
	first.Nonce = big.NewInt(0)
	sum := new(big.Int)
	for _, p := range first.Powers {
		sum.Add(sum, p)
	}
	if sum.Cmp(big.NewInt(contractThreshold)) <= 0 {
		allKeyed := true
		for _, nk := range c.NoKey {
			allKeyed = allKeyed && !nk
		}
		if allKeyed {
			// every validator is a member: the powers are shares of 2^32, each truncated, so they add up to almost all of it
			return pbt.Failf("published-set-below-threshold", "the hub's first signer set, with every validator a member, has a total power of %s: even with all members signing, the contract's threshold %d cannot be passed (powers %v, stakes %v)", sum, contractThreshold, first.Powers, c.Powers)
		}
		return nil // members hold too small a share of the stake: the contract refuses to deploy with a set below its threshold
	}
	w.ch, err = evm.NewChain(gid, big.NewInt(contractThreshold), first.Vals, first.Powers, 1000)
	if err != nil {
		return pbt.Failf("harness", "deploy: %v", err)
	}
	w.cur = first
	w.token, err = w.ch.DeployERC20(holder, 18)
	if err != nil || w.token != tokenAddr {
		return pbt.Failf("harness", "token address %s != predicted %s (%v)", w.token.Hex(), tokenAddr.Hex(), err)
	}
	token2, err := w.ch.DeployERC20(holder, 18)
	if err != nil || token2 != token2Addr {
		return pbt.Failf("harness", "token2 address %s != predicted %s (%v)", token2.Hex(), token2Addr.Hex(), err)
	}
	// users hold vouchers that are backed by tokens already in the contract's custody
	backing := new(big.Int).Lsh(big.NewInt(1), 80)
	for _, tk := range []common.Address{w.token, token2} {
		if _, err := w.ch.ERCCall(tk, holder, "transfer", w.ch.Hub, new(big.Int).Mul(backing, big.NewInt(3))); err != nil {
			return pbt.Failf("harness", "fund custody: %v", err)
		}
	}
	for u := 0; u < 3; u++ {
		h.Fund(sim.UserAddr(u), "hub", backing)
		h.Fund(sim.UserAddr(u), "usdt", backing)
	}
	type knownBatch struct {
		b        *mtypes.BatchTx
		executed bool
	}
	known := map[uint64]*knownBatch{}
	learn := func() {
		for _, b := range h.Batches("ethereum") {
			if known[b.BatchNonce] == nil {
				known[b.BatchNonce] = &knownBatch{b: b}
			}
		}
	}
	w.collect()

	var accepted, refused, setChanges, nearThreshold, batchesUnderNewSet, executed int
	confirmedBy := map[string]map[common.Address]bool{} // tx -> external addresses whose confirmation the hub accepted (my own record)
	note := func(key string, a common.Address) {
		if confirmedBy[key] == nil {
			confirmedBy[key] = map[common.Address]bool{}
		}
		confirmedBy[key][a] = true
	}
	modelPower := func(key string) *big.Int {
		p := new(big.Int)
		for i, a := range w.cur.Vals {
			if confirmedBy[key][a] {
				p.Add(p, w.cur.Powers[i])
			}
		}
		return p
	}
	lastMembers := fmt.Sprint(first.Vals)

	// confirmations the hub reports, mapped onto the contract's current set
	sigsFor := func(digestOwner string, confs map[common.Address][]byte) ([]evm.Sig, *big.Int) {
		sigs := make([]evm.Sig, len(w.cur.Vals))
		pow := new(big.Int)
		for i, a := range w.cur.Vals {
			if s, ok := confs[a]; ok {
				es, err := evm.SigFromBytes(s)
				if err == nil {
					sigs[i] = es
					pow.Add(pow, w.cur.Powers[i])
				}
			}
		}
		return sigs, pow
	}
	// choose a subset of available signatures according to the relayer mode
	subset := func(sigs []evm.Sig, mode int) ([]evm.Sig, *big.Int) {
		out := make([]evm.Sig, len(sigs))
		pow := new(big.Int)
		thr := big.NewInt(contractThreshold)
		switch mode {
		case 1: // smallest prefix (in set order) that suffices
			for i, s := range sigs {
				if s.V == 0 {
					continue
				}
				out[i] = s
				pow.Add(pow, w.cur.Powers[i])
				if pow.Cmp(thr) > 0 {
					break
				}
			}
		case 2: // as much as possible while staying at or below the threshold
			for i, s := range sigs {
				if s.V == 0 {
					continue
				}
				if new(big.Int).Add(pow, w.cur.Powers[i]).Cmp(thr) > 0 {
					continue
				}
				out[i] = s
				pow.Add(pow, w.cur.Powers[i])
			}
		default:
			for i, s := range sigs {
				if s.V != 0 {
					out[i] = s
					pow.Add(pow, w.cur.Powers[i])
				}
			}
		}
		return out, pow
	}
	// every bonded validator's orchestrator claims, in order, the contract events it has not claimed yet
	// (a validator that was unbonded when an event came in catches up once it is bonded again)
	var allEvents []mtypes.ExternalEvent
	claimed := map[int]int{}
	feed := func() {
		allEvents = append(allEvents, w.pending...)
		w.seenEv += uint64(len(w.pending))
		w.pending = nil
		for vi, v := range h.Staking.Vals {
			if !v.Bonded {
				continue
			}
			for claimed[vi] < len(allEvents) {
				any, _ := mtypes.PackEvent(allEvents[claimed[vi]])
				h.Deliver(&mtypes.MsgSubmitExternalEvent{Event: any, Signer: sdk.AccAddress(sim.ValAddr(vi)).String(), ChainId: "ethereum"})
				claimed[vi]++
			}
		}
	}
	inStep := func() *pbt.Failure {
		// after everything emitted so far was fed back and a block has passed, hub and contract agree
		if len(w.pending) != 0 {
			return nil
		}
		ctx := h.Ctx()
		if got, want := h.K.GetLastObservedEventNonce(ctx, "ethereum"), w.ch.LastEventNonce(); got != want {
			// claims are applied in EndBlock: only compare right after one
			return nil
		}
		obs := h.K.GetLastObservedSignerSetTx(ctx, "ethereum")
		if obs != nil {
			cp := w.ch.Checkpoint()
			if !bytes.Equal(obs.GetCheckpoint([]byte(cfg.GravityId)), cp[:]) {
				return pbt.Failf("observed-set-differs-from-contract", "hub's last observed signer set (nonce %d, %d members) does not hash to the contract's checkpoint", obs.Nonce, len(obs.Signers))
			}
			if obs.Nonce != w.ch.LastValsetNonce() {
				return pbt.Failf("observed-set-differs-from-contract", "hub observed signer set nonce %d, contract holds %d", obs.Nonce, w.ch.LastValsetNonce())
			}
		}
		return nil
	}

	// the orchestrators report the contract's initial signer-set event, so that the hub knows an external height
	feed()
	if err := h.End(); err != nil {
		return nil
	}
	height++
	now += 5
	if err := h.Begin(height, now); err != nil {
		return nil
	}
	for _, op := range c.Ops {
		switch op.Kind {
		case "block":
			if err := h.End(); err != nil {
				return nil
			}
			if f := inStep(); f != nil {
				return f
			}
			height++
			now += 5
			if err := h.Begin(height, now); err != nil {
				return nil
			}
		case "send":
			dn := []string{"hub", "usdt"}[op.Amt%2]
			h.Deliver(mtypes.NewMsgSendToExternal("ethereum", sim.UserAddr(op.User%3), sim.ExtUser(op.User).Hex(), sdk.NewInt64Coin(dn, op.Amt), sdk.NewInt64Coin(dn, op.Fee)))
		case "reqbatch":
			h.Deliver(&mtypes.MsgRequestBatchTx{Denom: "hub", Signer: sim.UserAddr(0).String(), ChainId: "ethereum"})
			h.Deliver(&mtypes.MsgRequestBatchTx{Denom: "usdt", Signer: sim.UserAddr(0).String(), ChainId: "ethereum"})
			learn()
		case "power":
			v, p := op.Val%nv, op.Pow
			h.QueueStaking(func(s *sim.SimStaking) { s.Vals[v].Power = p })
		case "unbond":
			v := op.Val % nv
			h.QueueStaking(func(s *sim.SimStaking) {
				n := 0
				for _, x := range s.Vals {
					if x.Bonded {
						n++
					}
				}
				if n > 1 && v != 0 {
					s.Vals[v].Bonded, s.Vals[v].Unbonding = false, true
				}
			})
		case "rebond":
			v := op.Val % nv
			h.QueueStaking(func(s *sim.SimStaking) { s.Vals[v].Bonded, s.Vals[v].Unbonding = true, false })
		case "tick":
			w.ch.Block += uint64(op.N)
		case "deposit":
			dst := [32]byte{}
			copy(dst[12:], sim.UserAddr(op.User%3))
			var dchain [32]byte
			copy(dchain[:], "hub")
			w.ch.ERCCall(tokenAddr, holder, "approve", w.ch.Hub, big.NewInt(op.Amt))
			if _, err := w.ch.HubCall(holder, "transferToChain", tokenAddr, dchain, dst, big.NewInt(op.Amt), big.NewInt(0)); err != nil {
				return pbt.Failf("harness", "transferToChain: %v", err)
			}
			w.collect()
		case "feed":
			feed()
		case "sign":
			gidb := []byte(cfg.GravityId)
			for vi, v := range h.Staking.Vals {
				if !v.Bonded || c.NoKey[vi] || op.Mask&(1<<uint(vi)) == 0 {
					continue
				}
				key, signer := sim.EthKey(vi, "ethereum", 0), sim.EthAddr(vi, "ethereum", 0).Hex()
				for _, ss := range h.SignerSets("ethereum") {
					sg, _ := mtypes.NewEthereumSignature(ss.GetCheckpoint(gidb), key)
					any, _ := mtypes.PackConfirmation(&mtypes.SignerSetTxConfirmation{SignerSetNonce: ss.Nonce, ExternalSigner: signer, Signature: sg})
					if r := h.Deliver(&mtypes.MsgSubmitExternalTxConfirmation{Confirmation: any, Signer: sim.OrchAddr(vi).String(), ChainId: "ethereum"}); r.Err == nil {
						note(fmt.Sprintf("ss/%d", ss.Nonce), common.HexToAddress(signer))
					}
				}
				for _, b := range h.Batches("ethereum") {
					sg, _ := mtypes.NewEthereumSignature(b.GetCheckpoint(gidb), key)
					any, _ := mtypes.PackConfirmation(&mtypes.BatchTxConfirmation{ExternalTokenId: b.ExternalTokenId, BatchNonce: b.BatchNonce, ExternalSigner: signer, Signature: sg})
					if r := h.Deliver(&mtypes.MsgSubmitExternalTxConfirmation{Confirmation: any, Signer: sim.OrchAddr(vi).String(), ChainId: "ethereum"}); r.Err == nil {
						note(fmt.Sprintf("batch/%d", b.BatchNonce), common.HexToAddress(signer))
					}
				}
			}
		case "valset":
			// the relayer takes a published set newer than the contract's and the confirmations the hub reports for it
			var cands []*mtypes.SignerSetTx
			for _, ss := range h.SignerSets("ethereum") {
				if ss.Nonce > w.cur.Nonce.Uint64() {
					cands = append(cands, ss)
				}
			}
			if len(cands) == 0 {
				break
			}
			ss := cands[len(cands)-1]
			if op.Mode == 3 {
				ss = cands[0]
			}
			r, err := h.K.SignerSetTxConfirmations(sdk.WrapSDKContext(h.Ctx()), &mtypes.SignerSetTxConfirmationsRequest{SignerSetNonce: ss.Nonce, ChainId: "ethereum"})
			if err != nil {
				return pbt.Failf("harness", "%v", err)
			}
			digest := ss.GetCheckpoint([]byte(cfg.GravityId))
			confs := map[common.Address][]byte{}
			for _, s := range r.Signatures {
				a := common.HexToAddress(s.ExternalSigner)
				if mtypes.ValidateEthereumSignature(digest, s.Signature, a) == nil { // the relayer drops signatures that do not verify
					confs[a] = s.Signature
				}
			}
			all, _ := sigsFor("", confs)
			use, pow := subset(all, op.Mode)
			enough := pow.Cmp(big.NewInt(contractThreshold)) > 0
			if op.Mode == 0 || op.Mode == 3 {
				// with every confirmation handed over, what counts is who confirmed, not what the query returned
				if mp := modelPower(fmt.Sprintf("ss/%d", ss.Nonce)); mp.Cmp(pow) != 0 {
					return pbt.Failf("confirmations-lost-for-relayer", "signer set %d: validators holding %s of the contract's current set confirmed it, the hub's query yields usable signatures for %s", ss.Nonce, mp, pow)
				}
			}
			d := new(big.Int).Sub(pow, big.NewInt(contractThreshold))
			if d.CmpAbs(big.NewInt(1<<26)) <= 0 {
				nearThreshold++
			}
			next := toEvmSet(ss)
			err = w.ch.UpdateValset(w.relayer, next, w.cur, use)
			switch {
			case err == nil && !enough:
				return pbt.Failf("contract-accepts-below-threshold", "updateValset to nonce %d accepted with confirmed power %s <= threshold %d", ss.Nonce, pow, contractThreshold)
			case err != nil && enough:
				return pbt.Failf("contract-refuses-confirmed-valset", "signer set %d is confirmed by %s of the contract's current set (> threshold %d) but updateValset reverts: %v", ss.Nonce, pow, contractThreshold, err)
			case err == nil:
				accepted++
				w.cur = next
				// the set now in force must be able to authorise anything at all: with all of its members signing, the
				// contract's (absolute) threshold has to be passed - the hub normalises the powers of a set to 2^32
				if len(next.Powers) > 0 {
					tot := new(big.Int)
					for _, p := range next.Powers {
						tot.Add(tot, p)
					}
					if tot.Cmp(big.NewInt(contractThreshold)) <= 0 {
						return pbt.Failf("adopted-set-below-threshold", "signer set %d, published by the hub and adopted by the contract, has a total power of %s: even with every member signing, the contract's threshold %d cannot be passed any more", ss.Nonce, tot, contractThreshold)
					}
				}
				if m := fmt.Sprint(next.Vals); m != lastMembers {
					setChanges++
					lastMembers = m
				}
				w.collect()
			default:
				refused++
			}
		case "batch":
			learn()
			bs := h.Batches("ethereum")
			stale := false
			if op.Mode == 0 && op.Pick >= 4 {
				// a relayer that still holds a batch the hub no longer lists (and that was not executed) tries it
				live := map[uint64]bool{}
				for _, b := range bs {
					live[b.BatchNonce] = true
				}
				var old []*mtypes.BatchTx
				for n, kb := range known {
					if !live[n] && !kb.executed {
						old = append(old, kb.b)
					}
				}
				sort.Slice(old, func(i, j int) bool { return old[i].BatchNonce < old[j].BatchNonce })
				if len(old) > 0 {
					bs, stale = old, true
				}
			}
			if len(bs) == 0 {
				break
			}
			b := bs[op.Pick%len(bs)]
			w.token = common.HexToAddress(b.ExternalTokenId)
			r, err := h.K.BatchTxConfirmations(sdk.WrapSDKContext(h.Ctx()), &mtypes.BatchTxConfirmationsRequest{BatchNonce: b.BatchNonce, ExternalTokenId: b.ExternalTokenId, ChainId: "ethereum"})
			if err != nil {
				return pbt.Failf("harness", "%v", err)
			}
			digest := b.GetCheckpoint([]byte(cfg.GravityId))
			confs := map[common.Address][]byte{}
			for _, s := range r.Signatures {
				a := common.HexToAddress(s.ExternalSigner)
				if mtypes.ValidateEthereumSignature(digest, s.Signature, a) == nil {
					confs[a] = s.Signature
				}
			}
			all, _ := sigsFor("", confs)
			use, pow := subset(all, op.Mode)
			enough := pow.Cmp(big.NewInt(contractThreshold)) > 0
			if op.Mode == 0 {
				if mp := modelPower(fmt.Sprintf("batch/%d", b.BatchNonce)); mp.Cmp(pow) != 0 {
					return pbt.Failf("confirmations-lost-for-relayer", "batch %d: validators holding %s of the contract's current set confirmed it, the hub's query yields usable signatures for %s", b.BatchNonce, mp, pow)
				}
			}
			eb := evm.Batch{Nonce: new(big.Int).SetUint64(b.BatchNonce), Token: common.HexToAddress(b.ExternalTokenId), Timeout: new(big.Int).SetUint64(b.Timeout)}
			before := map[common.Address]*big.Int{}
			for _, tx := range b.Transactions {
				eb.Amounts = append(eb.Amounts, tx.Token.Amount.BigInt())
				eb.Fees = append(eb.Fees, tx.Fee.Amount.BigInt())
				d := common.HexToAddress(tx.ExternalRecipient)
				eb.Destinations = append(eb.Destinations, d)
				before[d] = w.ch.BalanceOf(w.token, d)
			}
			inOrder := b.BatchNonce > w.ch.LastBatchNonce(w.token)
			timely := w.ch.Block < b.Timeout
			err = w.ch.SubmitBatch(w.relayer, w.cur, use, eb)
			if stale {
				if err == nil {
					return pbt.Failf("contract-executes-withdrawn-batch", "the hub withdrew batch %d (token %s) without observing its execution, yet the contract still executes it with the stored confirmations", b.BatchNonce, b.ExternalTokenId)
				}
				refused++
				break
			}
			switch {
			case err == nil && !(enough && inOrder && timely):
				return pbt.Failf("contract-accepts-unconfirmed-batch", "submitBatch %d accepted (power %s, in order %v, timely %v)", b.BatchNonce, pow, inOrder, timely)
			case err != nil && enough && inOrder && timely:
				return pbt.Failf("contract-refuses-confirmed-batch", "batch %d (timeout %d, contract block %d) is confirmed by %s of the contract's current set (> threshold) but submitBatch reverts: %v", b.BatchNonce, b.Timeout, w.ch.Block, pow, err)
			case err == nil:
				executed++
				if known[b.BatchNonce] != nil {
					known[b.BatchNonce].executed = true
				}
				if setChanges > 0 {
					batchesUnderNewSet++
				}
				// recipients got exactly their amounts
				want := map[common.Address]*big.Int{}
				for i, d := range eb.Destinations {
					if want[d] == nil {
						want[d] = new(big.Int).Set(before[d])
					}
					want[d].Add(want[d], eb.Amounts[i])
				}
				for d, x := range want {
					if got := w.ch.BalanceOf(w.token, d); got.Cmp(x) != 0 {
						return pbt.Failf("payout-differs", "recipient %s holds %s after batch %d, expected %s", d.Hex(), got, b.BatchNonce, x)
					}
				}
				w.collect()
			default:
				refused++
			}
		}
	}
	// settle: feed everything back, let two blocks pass, compare both sides
	// (a validator whose re-bonding was still queued joins at the next EndBlock; its orchestrator catches up then)
	for k := 0; k < 3; k++ {
		feed()
		if err := h.End(); err != nil {
			return nil
		}
		height++
		now += 5
		if err := h.Begin(height, now); err != nil {
			return nil
		}
	}
	ctx := h.Ctx()
	if got, want := h.K.GetLastObservedEventNonce(ctx, "ethereum"), w.ch.LastEventNonce(); got != want {
		return pbt.Failf("event-nonce-out-of-step", "after feeding every contract event back the hub observed nonce %d, the contract emitted %d", got, want)
	}
	if obs := h.K.GetLastObservedSignerSetTx(ctx, "ethereum"); obs != nil {
		cp := w.ch.Checkpoint()
		if !bytes.Equal(obs.GetCheckpoint([]byte(cfg.GravityId)), cp[:]) || obs.Nonce != w.ch.LastValsetNonce() {
			return pbt.Failf("observed-set-differs-from-contract", "hub's last observed signer set (nonce %d) is not the contract's current set (nonce %d)", obs.Nonce, w.ch.LastValsetNonce())
		}
	} else {
		return pbt.Failf("observed-set-differs-from-contract", "the hub has observed no signer set although the contract emitted its initial one")
	}
	// every batch the contract executed is gone from the hub, none newer than the contract's last nonce was removed by execution
	for _, b := range h.Batches("ethereum") {
		last := w.ch.LastBatchNonce(common.HexToAddress(b.ExternalTokenId))
		if b.BatchNonce <= last {
			return pbt.Failf("executed-batch-still-pending", "contract executed batches up to nonce %d but the hub still offers batch %d", last, b.BatchNonce)
		}
	}
	rec.NonTrivial = (setChanges >= 1 && batchesUnderNewSet >= 1) || nearThreshold > 0
	rec.Label("valsets-accepted=" + bucket(accepted))
	rec.Label("batches-executed=" + bucket(executed))
	rec.Label("submissions-refused=" + bucket(refused))
	_ = learn
	if batchesUnderNewSet > 0 {
		rec.Label("batch-under-rotated-set")
	}
	var ks []string
	_ = ks
	sort.Strings(ks)
	return nil
}

func TestC08(t *testing.T) {
	(&pbt.Check{
		ID:          "C08",
		Part:        "evm",
		Rule:        "full-loop histories over 1..6 validators (equal / small / skewed powers, some without ethereum key): sends, batch requests, blocks, power changes, unbonding, partial signing rounds, relayer submissions of signer sets and batches to the REAL Hub2 bytecode with all / the smallest sufficient / the largest insufficient subset of the confirmations the hub's queries return, external clock ticks, real transferToChain deposits, feeding contract events back as claims; non-trivial = a batch executed under a rotated signer set, or a submission within 2^26 of the contract threshold; distinct = distinct case JSON",
		Gen:         genLoopCase,
		New:         func() interface{} { return &LoopCase{} },
		Run:         runLoopCase,
		Assumptions: []string{"the committed Hub2 bytecode is the contract; the orchestrator's log-to-claim mapping is hand-ported from orchestrator/mhub2_utils (ethereum_events.rs) and cosmos_gravity/src/build.rs", "the relayer supplies the contract's true current set and only signatures that verify, as the Rust relayer does", "the contract is deployed with the hub's first signer set and threshold 2863311530, as the deployer script does; Minter's multisig is covered by the abstract world of C13/C01"},
	}).Main(t)
}
