package props

import (
	"bytes"
	"crypto/sha256"
	"encoding/hex"
	"fmt"
	"math/big"
	"testing"

	sdk "github.com/cosmos/cosmos-sdk/types"
	banktypes "github.com/cosmos/cosmos-sdk/x/bank/types"
	ethcrypto "github.com/ethereum/go-ethereum/crypto"
	"pgregory.net/rapid"

	mtypes "github.com/MinterTeam/mhub2/module/x/mhub2/types"

	"verifharness/bridge"
	"verifharness/pbt"
	"verifharness/sim"
)

// ---------------------------------------------------------------- case

type AttVal struct {
	Power   int64 `json:"power"`
	Bonded  bool  `json:"bonded"`
	HasOrch bool  `json:"has_orch"`
}

type AttOp struct {
	Kind    string `json:"kind"` // vote | alien | power | unbond | rebond | rekey | block
	Val     int    `json:"val,omitempty"`
	Chain   int    `json:"chain,omitempty"`
	Via     int    `json:"via,omitempty"`   // 0 validator account, 1 orchestrator account
	Delta   int    `json:"delta,omitempty"` // nonce = expected + delta
	Variant int    `json:"variant,omitempty"`
	Power   int64  `json:"power,omitempty"`
}

type AttCase struct {
	Vals []AttVal `json:"vals"`
	Ops  []AttOp  `json:"ops"`
}

var attChains = []string{"ethereum", "bsc"}

var attTokens = []sim.TokenCfg{
	{Id: 1, Denom: "hub", Chain: "ethereum", ExtId: "0xA091Bb826756eA25114c512B916754b3fBCb4f63", Decimals: 18, Commission: "0.01"},
	{Id: 2, Denom: "hub", Chain: "bsc", ExtId: "0xf7413144696C5E5502307A8015c6359965CAA725", Decimals: 18, Commission: "0.01"},
	{Id: 3, Denom: "hub", Chain: "minter", ExtId: "1", Decimals: 18, Commission: "0.01"},
}

func genAttCase(t *rapid.T) interface{} {
	n := rapid.IntRange(1, 9).Draw(t, "nvals")
	powerGen := rapid.OneOf(
		rapid.Int64Range(1, 3),
		rapid.SampledFrom([]int64{1, 1, 2, 3, 10, 33, 34, 50, 66, 67, 100, 1 << 20, 1 << 40, 1 << 50, 1 << 58}),
		rapid.Int64Range(1, 200),
	)
	c := &AttCase{}
	for i := 0; i < n; i++ {
		c.Vals = append(c.Vals, AttVal{
			Power:   powerGen.Draw(t, "power"),
			Bonded:  i == 0 || rapid.IntRange(0, 9).Draw(t, "bonded") < 8,
			HasOrch: rapid.Bool().Draw(t, "orch"),
		})
	}
	nops := rapid.IntRange(5, 70).Draw(t, "nops")
	for i := 0; i < nops; i++ {
		k := rapid.IntRange(0, 99).Draw(t, "k")
		op := AttOp{}
		switch {
		case k < 62:
			op.Kind = "vote"
			op.Val = rapid.IntRange(0, n-1).Draw(t, "val")
			op.Chain = rapid.IntRange(0, len(attChains)-1).Draw(t, "chain")
			op.Via = rapid.SampledFrom([]int{0, 0, 1}).Draw(t, "via")
			op.Delta = rapid.SampledFrom([]int{0, 0, 0, 0, 0, 0, 0, 0, -1, -1, 1, 2, -2, -3, -10, 5}).Draw(t, "delta")
			op.Variant = rapid.SampledFrom([]int{0, 0, 0, 0, 1, 2}).Draw(t, "variant")
		case k < 66:
			op.Kind = "alien"
			op.Val = rapid.IntRange(0, 2).Draw(t, "user")
			op.Chain = rapid.IntRange(0, len(attChains)-1).Draw(t, "chain")
		case k < 72:
			op.Kind = "power"
			op.Val = rapid.IntRange(0, n-1).Draw(t, "val")
			op.Power = powerGen.Draw(t, "newpower")
		case k < 76:
			op.Kind = "unbond"
			op.Val = rapid.IntRange(0, n-1).Draw(t, "val")
			op.Variant = rapid.SampledFrom([]int{0, 0, 0, 1}).Draw(t, "fully") // 1 = straight to Unbonded
		case k < 79:
			op.Kind = "rebond"
			op.Val = rapid.IntRange(0, n-1).Draw(t, "val")
		case k < 83:
			op.Kind = "rekey" // the validator registers a new orchestrator and external key (MsgDelegateKeys)
			op.Val = rapid.IntRange(0, n-1).Draw(t, "val")
			op.Chain = rapid.IntRange(0, len(attChains)-1).Draw(t, "chain")
		default:
			op.Kind = "block"
		}
		c.Ops = append(c.Ops, op)
	}
	return c
}

// ---------------------------------------------------------------- execution

func attEvent(chain string, nonce uint64, variant int) *mtypes.SendToHubEvent {
	tok := attTokens[0]
	if chain == "bsc" {
		tok = attTokens[1]
	}
	return &mtypes.SendToHubEvent{
		EventNonce:     nonce,
		ExternalCoinId: tok.ExtId,
		Amount:         sdk.NewInt(int64(nonce)*1000 + int64(variant) + 1),
		Sender:         sim.ExtUser(7).Hex(),
		CosmosReceiver: sim.UserAddr(variant).String(),
		ExternalHeight: 100 + nonce,
		TxHash:         fmt.Sprintf("0x%064x", nonce*16+uint64(variant)),
	}
}

func attAmount(nonce uint64, variant int) *big.Int {
	return big.NewInt(int64(nonce)*1000 + int64(variant) + 1)
}

type nv struct {
	chain   string
	nonce   uint64
	variant int
}

func runAttCase(want string) func(ci interface{}, rec *pbt.Rec) *pbt.Failure {
	return runAttCaseObs(want, nil)
}

// runAttCaseObs additionally calls obs after every EndBlock and every claim (C06 reuses these histories).
func runAttCaseObs(want string, obs func(h *sim.Hub, what string)) func(ci interface{}, rec *pbt.Rec) *pbt.Failure {
	return func(ci interface{}, rec *pbt.Rec) *pbt.Failure {
		c := ci.(*AttCase)
		a := &firstFail{want: want, lenient: true}
		cfg := sim.Config{Tokens: attTokens, Prices: []sim.PriceCfg{{Name: "hub", Value: "1"}}}
		for _, v := range c.Vals {
			vc := sim.ValCfg{Power: v.Power, Bonded: v.Bonded}
			if v.HasOrch {
				vc.Keys = []string{"ethereum", "bsc"}
			}
			cfg.Vals = append(cfg.Vals, vc)
		}
		h := sim.NewHub(cfg)
		height, now := int64(1), int64(1600000005)
		if err := h.Begin(height, now); err != nil {
			return pbt.Failf("harness", "begin: %v", err)
		}

		nvals := len(c.Vals)
		orchOf := map[string]sdk.AccAddress{} // chain|val -> currently registered orchestrator
		rekeys := map[string]int{}
		for vi, v := range c.Vals {
			if v.HasOrch {
				for _, ch := range attChains {
					orchOf[fmt.Sprintf("%s|%d", ch, vi)] = sim.OrchAddr(vi)
				}
			}
		}
		lastByVal := map[string]uint64{} // chain|val -> last accepted nonce
		voted := map[string]bool{}       // chain|val has an accepted claim
		voters := map[nv]map[int]bool{}  // accepted votes
		votedNonce := map[string]bool{}  // chain|val|nonce
		expectBal := map[int]*big.Int{0: new(big.Int), 1: new(big.Int), 2: new(big.Int)}
		lastObs := map[string]uint64{}
		// bookkeeping for the non-trivial rule
		var applied, rejected, conflictsApplied, powerChangeBetween, multiPerBlock, replays int
		dirtySinceVote := false

		// everything in the module's and the bank's store except what a mere vote may write (vote records, claim cursors)
		beyondVotes := func() string {
			hs := sha256.New()
			for _, n := range []string{mtypes.StoreKey, banktypes.StoreKey} {
				for _, kv := range h.Dump(n) {
					if n == mtypes.StoreKey && len(kv.K) > 0 && (kv.K[0] == mtypes.ExternalEventVoteRecordKey || kv.K[0] == mtypes.LastEventNonceByValidatorKey) {
						continue
					}
					hs.Write(kv.K)
					hs.Write([]byte{0})
					hs.Write(kv.V)
					hs.Write([]byte{1})
				}
			}
			return hex.EncodeToString(hs.Sum(nil))
		}
		endBlock := func() {
			stateBefore := beyondVotes()
			if err := h.End(); err != nil {
				a.fail("C05", bridge.BlockerKey(err), "%v", err)
				return
			}
			{
				// an EndBlock in which no event reached quorum changes nothing beyond the votes
				moved := false
				for _, ch := range attChains {
					if h.K.GetLastObservedEventNonce(h.Ctx(), mtypes.ChainID(ch)) != lastObs[ch] {
						moved = true
					}
				}
				if !moved && beyondVotes() != stateBefore {
					if a.fail("C02", "state-changed-without-quorum", "EndBlock of height %d applied no event (no claim reached 66%%), yet module or bank state beyond vote records and claim cursors changed", height) {
						return
					}
				}
			}
			if obs != nil {
				obs(h, "end")
			}
			ctx := h.Ctx()
			total := h.Staking.TotalPower()
			for _, ch := range attChains {
				newObs := h.K.GetLastObservedEventNonce(ctx, mtypes.ChainID(ch))
				mapping := h.K.GetExternalEventVoteRecordMapping(ctx, mtypes.ChainID(ch))
				if newObs < lastObs[ch] {
					if a.fail("C03", "nonce-regressed", "%s: last observed nonce went from %d to %d", ch, lastObs[ch], newObs) {
						return
					}
					lastObs[ch] = newObs
				}
				if newObs-lastObs[ch] >= 2 {
					multiPerBlock++
				}
				for n := lastObs[ch] + 1; n <= newObs; n++ {
					var acc []*mtypes.ExternalEventVoteRecord
					for _, r := range mapping[n] {
						if r.Accepted {
							acc = append(acc, r)
						}
					}
					if len(acc) != 1 {
						if a.fail("C03", "accepted-count", "%s nonce %d applied but %d records are marked accepted", ch, n, len(acc)) {
							return
						}
						if len(acc) == 0 {
							continue
						}
					}
					ev, err := mtypes.UnpackEvent(acc[0].Event)
					if err != nil {
						a.fail("harness", "unpack", "%v", err)
						return
					}
					sth := ev.(*mtypes.SendToHubEvent)
					variant := -1
					for v := 0; v < 3; v++ {
						if attEvent(ch, n, v).Hash().String() == sth.Hash().String() && attEvent(ch, n, v).CosmosReceiver == sth.CosmosReceiver {
							variant = v
						}
					}
					if variant < 0 {
						a.fail("C02", "unknown-event-applied", "%s nonce %d: applied event was never claimed", ch, n)
						a.stop() // its effect is unknown to the model
						return
					}
					if len(mapping[n]) > 1 {
						conflictsApplied++
					}
					want := voters[nv{ch, n, variant}]
					seen := map[string]bool{}
					sum := big.NewInt(0)
					for _, vs := range acc[0].Votes {
						if seen[vs] {
							if a.fail("C02", "duplicate-vote-counted", "%s nonce %d: validator %s appears twice in the applied record", ch, n, vs) {
								return
							}
							continue
						}
						seen[vs] = true
						idx := -1
						for i := 0; i < nvals; i++ {
							if sim.ValAddr(i).String() == vs {
								idx = i
							}
						}
						if idx < 0 || !want[idx] {
							if a.fail("C02", "vote-not-cast", "%s nonce %d: counted vote of %s which that validator did not cast for this event", ch, n, vs) {
								return
							}
							continue
						}
						sum.Add(sum, big.NewInt(h.Staking.GetLastValidatorPower(ctx, sim.ValAddr(idx))))
					}
					lhs := new(big.Int).Mul(sum, big.NewInt(100))
					rhs := new(big.Int).Mul(big.NewInt(total), big.NewInt(66))
					if lhs.Cmp(rhs) < 0 {
						if a.fail("C02", "quorum-below-66pct", "%s nonce %d applied with voting power %s of total %d (< 66%%)", ch, n, sum, total) {
							return
						}
					}
					expectBal[variant].Add(expectBal[variant], attAmount(n, variant))
					applied++
					if dirtySinceVote {
						powerChangeBetween++
					}
				}
				// every accepted record must be at or below the observed nonce, one per nonce
				for n, rs := range mapping {
					cnt := 0
					for _, r := range rs {
						if r.Accepted {
							cnt++
						}
					}
					if cnt > 1 || (cnt == 1 && n > newObs) {
						if a.fail("C03", "accepted-flag", "%s nonce %d: %d accepted records, last observed %d", ch, n, cnt, newObs) {
							return
						}
					}
				}
				lastObs[ch] = newObs
			}
			supply := new(big.Int)
			for u := 0; u < 3; u++ {
				got := h.Balance(sim.UserAddr(u), "hub")
				if got.Cmp(expectBal[u]) != 0 {
					if a.fail("C03", "effect-mismatch", "user %d holds %s, but the events applied exactly once in order give %s", u, got, expectBal[u]) {
						return
					}
				}
				supply.Add(supply, got)
			}
			if s := h.Supply("hub"); s.Cmp(supply) != 0 {
				if a.fail("C03", "supply-mismatch", "supply %s but applied events minted %s", s, supply) {
					return
				}
			}
			dirtySinceVote = false
		}

		for _, op := range c.Ops {
			if a.failed() {
				break
			}
			switch op.Kind {
			case "block":
				endBlock()
				if a.failed() {
					break
				}
				height++
				now += 5
				if err := h.Begin(height, now); err != nil {
					a.fail("C05", bridge.BlockerKey(err), "%v", err)
				}
			case "power":
				v, p := op.Val%nvals, op.Power
				h.QueueStaking(func(s *sim.SimStaking) { s.Vals[v].Power = p })
				dirtySinceVote = true
			case "unbond":
				v := op.Val % nvals
				h.QueueStaking(func(s *sim.SimStaking) {
					// keep at least one bonded validator: a chain without one makes no blocks
					cnt := 0
					for _, x := range s.Vals {
						if x.Bonded {
							cnt++
						}
					}
					if cnt > 1 {
						s.Vals[v].Bonded = false
						// as in x/staking: leaving the active set means Unbonding first
						s.Vals[v].Unbonding = op.Variant != 1
					}
				})
				dirtySinceVote = true
			case "rebond":
				v := op.Val % nvals
				h.QueueStaking(func(s *sim.SimStaking) { s.Vals[v].Bonded, s.Vals[v].Unbonding = true, false })
				dirtySinceVote = true
			case "rekey":
				v := op.Val % nvals
				ch := attChains[op.Chain%len(attChains)]
				key := fmt.Sprintf("%s|%d", ch, v)
				rekeys[key]++
				ctx := h.Ctx()
				acc := h.Acc.GetAccount(ctx, sdk.AccAddress(sim.ValAddr(v)))
				seq := acc.GetSequence()
				bz := h.Cdc.MustMarshal(&mtypes.DelegateKeysSignMsg{ValidatorAddress: sim.ValAddr(v).String(), Nonce: seq})
				sg, _ := mtypes.NewEthereumSignature(ethcrypto.Keccak256Hash(bz).Bytes(), sim.EthKey(v, ch, rekeys[key]))
				acc.SetSequence(seq + 1)
				h.Acc.SetAccount(ctx, acc)
				no := sim.OrchAddr(1000 + 10*v + rekeys[key])
				r := h.Deliver(&mtypes.MsgDelegateKeys{ValidatorAddress: sim.ValAddr(v).String(), OrchestratorAddress: no.String(), ExternalAddress: sim.EthAddr(v, ch, rekeys[key]).Hex(), EthSignature: sg, ChainId: ch})
				if r.Err == nil {
					orchOf[key] = no
				}
			case "alien":
				ch := attChains[op.Chain%len(attChains)]
				ev, _ := mtypes.PackEvent(attEvent(ch, lastObs[ch]+1, 0))
				before := h.StateHash()
				r := h.Deliver(&mtypes.MsgSubmitExternalEvent{Event: ev, Signer: sim.UserAddr(op.Val % 3).String(), ChainId: ch})
				if r.Err == nil {
					a.fail("C02", "alien-vote-accepted", "claim from an account that is neither validator nor orchestrator was accepted")
				} else if h.StateHash() != before {
					a.fail("C02", "rejected-vote-wrote", "rejected claim changed state")
				}
				rejected++
			case "vote":
				v := op.Val % nvals
				ch := attChains[op.Chain%len(attChains)]
				key := fmt.Sprintf("%s|%d", ch, v)
				var expected uint64
				if voted[key] {
					expected = lastByVal[key] + 1
				} else {
					expected = lastObs[ch] + 1
				}
				n := int64(expected) + int64(op.Delta)
				if n < 1 {
					n = 1
				}
				nonce := uint64(n)
				signer := sdk.AccAddress(sim.ValAddr(v))
				signerOK := h.Staking.Vals[v].Bonded
				if op.Via == 1 {
					signer = sim.OrchAddr(v)
					if o, ok := orchOf[key]; ok {
						signer = o
					}
					_, has := orchOf[key]
					signerOK = signerOK && has
				}
				ev, _ := mtypes.PackEvent(attEvent(ch, nonce, op.Variant))
				before := ""
				if !signerOK || voted[key] {
					before = h.StateHash()
				}
				r := h.Deliver(&mtypes.MsgSubmitExternalEvent{Event: ev, Signer: signer.String(), ChainId: ch})
				if obs != nil {
					obs(h, fmt.Sprintf("claim-err=%v", r.Err != nil))
				}
				if r.Panicked {
					a.fail("C05", "handler-panic", "%v", r.Err)
					break
				}
				ok := r.Err == nil
				if !signerOK {
					rejected++
					if !ok {
						if h.StateHash() != before {
							a.fail("C02", "rejected-vote-wrote", "rejected claim changed state")
						}
						break
					}
					if a.fail("C02", "unbonded-vote-accepted", "claim signed by %s (bonded=%v, orchestrator registered=%v, via=%d) was accepted", signer, h.Staking.Vals[v].Bonded, orchOf[key] != nil, op.Via) {
						break
					}
					if _, has := orchOf[key]; op.Via == 1 && !has {
						a.stop() // accepted from an account bound to nobody: the model cannot say whose vote it became
						break
					}
					// (another property's business: go on as the code did, with an accepted claim of validator v)
				}
				if voted[key] {
					mustAccept := nonce == lastByVal[key]+1
					if nonce <= lastByVal[key] {
						replays++
					}
					if ok && !mustAccept {
						if a.fail("C03", "non-contiguous-claim-accepted", "validator %d on %s: last claim %d, claim for nonce %d accepted", v, ch, lastByVal[key], nonce) {
							break
						}
					}
					if !ok && mustAccept {
						if a.fail("C03", "contiguous-claim-rejected", "validator %d on %s: claim for nonce %d right after %d rejected: %v", v, ch, nonce, lastByVal[key], r.Err) {
							break
						}
					}
					if !ok && h.StateHash() != before {
						if a.fail("C03", "rejected-vote-wrote", "rejected claim changed state") {
							break
						}
					}
				}
				if !ok {
					rejected++
					break
				}
				vk := fmt.Sprintf("%s|%d|%d", ch, v, nonce)
				if votedNonce[vk] {
					if a.fail("C03", "double-vote-same-nonce", "validator %d voted twice for %s nonce %d", v, ch, nonce) {
						break
					}
				}
				votedNonce[vk] = true
				voted[key] = true
				lastByVal[key] = nonce
				// the resume point orchestrators ask for is the validator's last claimed nonce
				if q, err := h.K.LastSubmittedExternalEvent(sdk.WrapSDKContext(h.Ctx()), &mtypes.LastSubmittedExternalEventRequest{Address: signer.String(), ChainId: ch}); err != nil || q.EventNonce != nonce {
					if a.fail("C03", "resume-point-query", "validator %d on %s claimed nonce %d, LastSubmittedExternalEvent answers %v (%v)", v, ch, nonce, q, err) {
						break
					}
				}
				// the vote is kept with the event the validator reported, and with no other event of that nonce
				{
					mine := attEvent(ch, nonce, op.Variant).Hash()
					me := sim.ValAddr(v).String()
					in := func(r *mtypes.ExternalEventVoteRecord) bool {
						if r == nil {
							return false
						}
						for _, x := range r.Votes {
							if x == me {
								return true
							}
						}
						return false
					}
					if !in(h.K.GetExternalEventVoteRecord(h.Ctx(), mtypes.ChainID(ch), nonce, mine)) {
						if a.fail("C14", "vote-not-kept-with-reported-event", "validator %d reported variant %d of %s nonce %d; the vote record of that event does not hold its vote", v, op.Variant, ch, nonce) {
							break
						}
					}
					for variant := 0; variant < 6; variant++ {
						oh := attEvent(ch, nonce, variant).Hash()
						if !bytes.Equal(oh, mine) && !voters[nv{ch, nonce, variant}][v] && in(h.K.GetExternalEventVoteRecord(h.Ctx(), mtypes.ChainID(ch), nonce, oh)) {
							if a.fail("C14", "vote-counted-for-another-event", "validator %d reported variant %d of %s nonce %d and is listed as a voter of variant %d", v, op.Variant, ch, nonce, variant) {
								break
							}
						}
					}
				}
				k := nv{ch, nonce, op.Variant}
				if voters[k] == nil {
					voters[k] = map[int]bool{}
				}
				voters[k][v] = true
			}
		}
		if !a.failed() {
			endBlock()
		}
		rec.Label(fmt.Sprintf("applied=%d", min(applied, 5)))
		if conflictsApplied > 0 {
			rec.Label("conflict-at-applied-nonce")
		}
		if powerChangeBetween > 0 {
			rec.Label("stake-change-before-tally")
		}
		if multiPerBlock > 0 {
			rec.Label("two-nonces-in-one-block")
		}
		if replays > 0 {
			rec.Label("replayed-claim")
		}
		if want == "C02" {
			rec.NonTrivial = applied > 0 && (rejected > 0 || powerChangeBetween > 0 || conflictsApplied > 0)
		} else {
			rec.NonTrivial = applied > 0 && (multiPerBlock > 0 || conflictsApplied > 0 || replays > 0)
		}
		return a.result()
	}
}

func min(a, b int) int {
	if a < b {
		return a
	}
	return b
}

func TestC02(t *testing.T) {
	(&pbt.Check{
		ID:   "C02",
		Rule: "histories of claims/stake changes/blocks over 1-9 validators on SimStaking; non-trivial = >=1 event applied and (a rejected claim, or a stake change between vote and tally, or conflicting claims at an applied nonce); distinct = distinct case JSON",
		Gen:  genAttCase,
		New:  func() interface{} { return &AttCase{} },
		Run:  runAttCase("C02"),
		Assumptions: []string{
			"staking is the harness's SimStaking double: power and bonding change only at the staking step of EndBlock",
			"events are SendToHub deposits; applied-event identity is recognised through their claim hash",
		},
	}).Main(t)
}

func TestC03(t *testing.T) {
	(&pbt.Check{
		ID:   "C03",
		Rule: "same histories as C02; non-trivial = >=1 event applied and (>=2 nonces applied in one block, or conflicting claims at an applied nonce, or a replayed/old claim attempted); distinct = distinct case JSON",
		Gen:  genAttCase,
		New:  func() interface{} { return &AttCase{} },
		Run:  runAttCase("C03"),
		Assumptions: []string{
			"staking is the harness's SimStaking double",
			"a validator's first claim on a chain may carry any nonce the module accepts; only later claims are required to be consecutive",
		},
	}).Main(t)
}

// TestC14Claims: C14 over claim histories - where a vote is kept. Conflicting reports for one nonce (also after one of them
// was observed) must each stay with the event that was reported.
func TestC14Claims(t *testing.T) {
	(&pbt.Check{
		ID:   "C14",
		Part: "claims",
		Rule: "claim histories as in C02/C03 (conflicting reports for one nonce before and after one of them is observed, repeats, late voters); after every accepted claim the vote record of the reported event holds the validator's vote and no record of another event at that nonce lists it unless it reported that one too; non-trivial = a history with conflicting claims at some nonce; distinct = distinct case JSON",
		Gen:  genAttCase,
		New:  func() interface{} { return &AttCase{} },
		Run:  runAttCase("C14"),
	}).Main(t)
}
