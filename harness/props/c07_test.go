package props

import (
	"bytes"
	"encoding/hex"
	"fmt"
	"math/big"
	"strings"
	"testing"

	sdk "github.com/cosmos/cosmos-sdk/types"
	"github.com/ethereum/go-ethereum/common"
	ethcrypto "github.com/ethereum/go-ethereum/crypto"
	"pgregory.net/rapid"

	mtypes "github.com/MinterTeam/mhub2/module/x/mhub2/types"

	"verifharness/abiref"
	"verifharness/evm"
	"verifharness/pbt"
	"verifharness/sim"
)

type SigMember struct {
	Addr  string `json:"addr"` // 20-byte hex
	Power uint64 `json:"power"`
}

type SigTx struct {
	Amount string `json:"amount"`
	Fee    string `json:"fee"`
	Dest   string `json:"dest"`
}

type SigCase struct {
	Kind      string      `json:"kind"`       // valset | batch | logic
	GravityID string      `json:"gravity_id"` // hex, <= 32 bytes
	Nonce     uint64      `json:"nonce"`
	Timeout   uint64      `json:"timeout"`
	Members   []SigMember `json:"members"`
	Txs       []SigTx     `json:"txs"`
	Token     string      `json:"token"`
	Fees      []SigTx     `json:"fees"` // logic call fee tokens (Amount, Dest = token contract)
	Payload   string      `json:"payload"`
	Scope     string      `json:"scope"`
	Logic     string      `json:"logic"`
	Contract  bool        `json:"contract"` // also ask the real contract
	SignerIdx int         `json:"signer_idx"`
	// Spell: how addresses are written in the hub's records (recipients come from user messages and events, token ids and
	// logic-call addresses from configuration; everything common.IsHexAddress admits): element i uses spelling (Spell+i)%6
	Spell int `json:"spell,omitempty"`
}

// spellAddr writes a 20-byte address in one of the admissible spellings.
func spellAddr(a [20]byte, k int) string {
	cs := common.Address(a).Hex()
	switch k % 6 {
	case 1:
		return strings.ToLower(cs)
	case 2:
		return "0x" + strings.ToUpper(cs[2:])
	case 3:
		return "0X" + cs[2:]
	case 4:
		return strings.ToLower(cs[2:])
	case 5:
		return strings.ToUpper(cs[2:])
	}
	return cs
}

var u64Edges = []uint64{0, 1, 2, 255, 256, 1<<31 - 1, 1 << 31, 1<<32 - 1, 1 << 32, 1<<63 - 1, 1 << 63, 1<<63 + 1, 1<<64 - 1}

func genU64(t *rapid.T, label string) uint64 {
	if rapid.IntRange(0, 2).Draw(t, label+"-edge") == 0 {
		return u64Edges[rapid.IntRange(0, len(u64Edges)-1).Draw(t, label+"-e")]
	}
	return rapid.Uint64().Draw(t, label)
}

func genAddr(t *rapid.T, label string) string {
	switch rapid.IntRange(0, 5).Draw(t, label+"-class") {
	case 0:
		return strings.Repeat("00", 20)
	case 1:
		return strings.Repeat("ff", 20)
	case 2:
		return strings.Repeat("00", 19) + "01"
	}
	b := rapid.SliceOfN(rapid.Byte(), 20, 20).Draw(t, label)
	return hex.EncodeToString(b)
}

func gen256(t *rapid.T, label string) string {
	switch rapid.IntRange(0, 6).Draw(t, label+"-class") {
	case 0:
		return "0"
	case 1:
		return new(big.Int).Sub(new(big.Int).Lsh(big.NewInt(1), 256), big.NewInt(1)).String()
	case 2:
		return new(big.Int).Lsh(big.NewInt(1), 255).String()
	case 3:
		return fmt.Sprint(rapid.Uint64().Draw(t, label))
	}
	bits := rapid.IntRange(1, 256).Draw(t, label+"-bits")
	b := rapid.SliceOfN(rapid.Byte(), 32, 32).Draw(t, label+"-bytes")
	x := new(big.Int).SetBytes(b)
	x.Rsh(x, uint(256-bits))
	return x.String()
}

func genSigCase(t *rapid.T) interface{} {
	c := &SigCase{}
	c.Kind = rapid.SampledFrom([]string{"valset", "valset", "batch", "batch", "logic"}).Draw(t, "kind")
	glen := rapid.SampledFrom([]int{0, 1, 16, 16, 31, 32}).Draw(t, "glen")
	c.GravityID = hex.EncodeToString(rapid.SliceOfN(rapid.Byte(), glen, glen).Draw(t, "gid"))
	c.Nonce = genU64(t, "nonce")
	c.Timeout = genU64(t, "timeout")
	c.Contract = rapid.IntRange(0, 2).Draw(t, "contract") == 0
	c.Token = genAddr(t, "token")
	switch c.Kind {
	case "valset":
		n := rapid.SampledFrom([]int{0, 1, 2, 2, 3, 5, 10, 50, 150}).Draw(t, "nmembers")
		dup := rapid.IntRange(0, 5).Draw(t, "dup") == 0
		for i := 0; i < n; i++ {
			m := SigMember{Addr: genAddr(t, "maddr"), Power: genU64(t, "mpower")}
			if dup && i > 0 {
				m.Addr = c.Members[0].Addr
			}
			c.Members = append(c.Members, m)
		}
	case "batch":
		n := rapid.SampledFrom([]int{0, 1, 2, 2, 3, 10, 100}).Draw(t, "ntx")
		for i := 0; i < n; i++ {
			c.Txs = append(c.Txs, SigTx{Amount: gen256(t, "amt"), Fee: gen256(t, "fee"), Dest: genAddr(t, "dest")})
		}
	case "logic":
		for i, n := 0, rapid.IntRange(0, 5).Draw(t, "ntok"); i < n; i++ {
			c.Txs = append(c.Txs, SigTx{Amount: gen256(t, "amt"), Dest: genAddr(t, "tok")})
		}
		for i, n := 0, rapid.IntRange(0, 5).Draw(t, "nfee"); i < n; i++ {
			c.Fees = append(c.Fees, SigTx{Amount: gen256(t, "famt"), Dest: genAddr(t, "ftok")})
		}
		plen := rapid.SampledFrom([]int{0, 1, 31, 32, 33, 64, 100, 2048}).Draw(t, "plen")
		c.Payload = hex.EncodeToString(rapid.SliceOfN(rapid.Byte(), plen, plen).Draw(t, "payload"))
		slen := rapid.SampledFrom([]int{0, 1, 20, 32}).Draw(t, "slen")
		c.Scope = hex.EncodeToString(rapid.SliceOfN(rapid.Byte(), slen, slen).Draw(t, "scope"))
		c.Logic = genAddr(t, "logic")
	}
	c.SignerIdx = rapid.IntRange(0, 3).Draw(t, "signer")
	if rapid.IntRange(0, 2).Draw(t, "respell") == 0 {
		c.Spell = rapid.IntRange(1, 5).Draw(t, "spell")
	}
	return c
}

func a20(h string) [20]byte {
	var a [20]byte
	b, _ := hex.DecodeString(h)
	copy(a[20-len(b):], b)
	return a
}

func mustHex(h string) []byte {
	b, err := hex.DecodeString(h)
	if err != nil {
		panic(err)
	}
	return b
}

const sigMismatch = "Validator signature does not match."

func runSigCase(ci interface{}, rec *pbt.Rec) *pbt.Failure {
	c := ci.(*SigCase)
	gid := mustHex(c.GravityID)
	var hubDigest []byte
	var ref [32]byte
	big63 := c.Nonce >= 1<<63 || c.Timeout >= 1<<63
	switch c.Kind {
	case "valset":
		ss := mtypes.SignerSetTx{Nonce: c.Nonce}
		var vals [][20]byte
		var pows []uint64
		for _, m := range c.Members {
			ss.Signers = append(ss.Signers, &mtypes.ExternalSigner{Power: m.Power, ExternalAddress: common.Address(a20(m.Addr)).Hex()})
			vals = append(vals, a20(m.Addr))
			pows = append(pows, m.Power)
			if m.Power >= 1<<63 {
				big63 = true
			}
		}
		hubDigest = ss.GetCheckpoint(gid)
		ref = abiref.SignerSetCheckpoint(gid, c.Nonce, vals, pows)
		rec.NonTrivial = len(c.Members) >= 2 || big63
	case "batch":
		b := mtypes.BatchTx{BatchNonce: c.Nonce, Timeout: c.Timeout, ExternalTokenId: spellAddr(a20(c.Token), c.Spell)}
		var am, fe []*big.Int
		var de [][20]byte
		for i, tx := range c.Txs {
			b.Transactions = append(b.Transactions, &mtypes.SendToExternal{Id: uint64(i + 1),
				ExternalRecipient: spellAddr(a20(tx.Dest), c.Spell+i),
				Token:             mtypes.ExternalToken{Amount: sdk.NewIntFromBigInt(bi(tx.Amount)), ExternalTokenId: b.ExternalTokenId},
				Fee:               mtypes.ExternalToken{Amount: sdk.NewIntFromBigInt(bi(tx.Fee)), ExternalTokenId: b.ExternalTokenId}})
			if i%2 == 1 {
				// the validators' commission stays on the hub: it is recorded with the transfer and is no part of what the contract pays or hashes
				b.Transactions[i].ValCommission = mtypes.ExternalToken{Amount: sdk.NewIntFromBigInt(new(big.Int).Add(new(big.Int).Rsh(bi(tx.Amount), 7), big.NewInt(13))), ExternalTokenId: b.ExternalTokenId}
			}
			am, fe, de = append(am, bi(tx.Amount)), append(fe, bi(tx.Fee)), append(de, a20(tx.Dest))
		}
		hubDigest = b.GetCheckpoint(gid)
		ref = abiref.BatchCheckpoint(gid, am, de, fe, c.Nonce, a20(c.Token), c.Timeout)
		rec.NonTrivial = len(c.Txs) >= 2 || big63
	case "logic":
		cc := mtypes.ContractCallTx{InvalidationNonce: c.Nonce, InvalidationScope: mustHex(c.Scope), Address: spellAddr(a20(c.Logic), c.Spell),
			Payload: mustHex(c.Payload), Timeout: c.Timeout}
		var ta, fa []*big.Int
		var tt, ft [][20]byte
		for i, tx := range c.Txs {
			cc.Tokens = append(cc.Tokens, mtypes.ExternalToken{Amount: sdk.NewIntFromBigInt(bi(tx.Amount)), ExternalTokenId: spellAddr(a20(tx.Dest), c.Spell+i)})
			ta, tt = append(ta, bi(tx.Amount)), append(tt, a20(tx.Dest))
		}
		for i, tx := range c.Fees {
			cc.Fees = append(cc.Fees, mtypes.ExternalToken{Amount: sdk.NewIntFromBigInt(bi(tx.Amount)), ExternalTokenId: spellAddr(a20(tx.Dest), c.Spell+i+1)})
			fa, ft = append(fa, bi(tx.Amount)), append(ft, a20(tx.Dest))
		}
		hubDigest = cc.GetCheckpoint(gid)
		ref = abiref.LogicCallCheckpoint(gid, ta, tt, fa, ft, a20(c.Logic), mustHex(c.Payload), c.Timeout, mustHex(c.Scope), c.Nonce)
		rec.NonTrivial = len(c.Txs)+len(c.Fees) >= 2 || len(c.Payload) >= 66 || big63
	}
	rec.Label("kind=" + c.Kind)
	if big63 {
		rec.Label("integer>=2^63")
	}
	if !bytes.Equal(hubDigest, ref[:]) {
		key := "checkpoint-differs-from-abi-encode"
		if big63 {
			key = "checkpoint-differs-for-uint64>=2^63"
		}
		return pbt.Failf(key, "%s checkpoint %x differs from keccak256(abi.encode(...)) = %x", c.Kind, hubDigest, ref)
	}

	// ---- signatures: produced for the digest, valid for the signer and for nothing else
	key := sim.EthKey(c.SignerIdx, "ethereum", 0)
	addr := ethcrypto.PubkeyToAddress(key.PublicKey)
	sig, err := mtypes.NewEthereumSignature(hubDigest, key)
	if err != nil {
		return pbt.Failf("sign-failed", "%v", err)
	}
	if err := mtypes.ValidateEthereumSignature(hubDigest, sig, addr); err != nil {
		return pbt.Failf("own-signature-rejected", "signature over the digest does not validate for its signer: %v", err)
	}
	other := sim.EthAddr(c.SignerIdx+1, "ethereum", 0)
	if mtypes.ValidateEthereumSignature(hubDigest, sig, other) == nil {
		return pbt.Failf("signature-valid-for-other-address", "signature by %s validates for %s", addr.Hex(), other.Hex())
	}
	flipped := append([]byte{}, hubDigest...)
	flipped[int(c.Nonce%32)] ^= 1 << (c.Timeout % 8)
	if mtypes.ValidateEthereumSignature(flipped, sig, addr) == nil {
		return pbt.Failf("signature-valid-for-other-digest", "signature validates for a digest differing in one bit")
	}
	// a signature over the bare digest (no "\x19Ethereum Signed Message:\n32" prefix) is not one the contract accepts
	if raw, err := ethcrypto.Sign(hubDigest, key); err == nil && mtypes.ValidateEthereumSignature(hubDigest, raw, addr) == nil {
		return pbt.Failf("unprefixed-signature-accepted", "a signature over the bare digest, which Hub2.verifySig rejects, validates on the hub")
	}
	// nor does a signature made for this digest serve for the digest's own prefixed hash (or the other way round)
	pre := ethcrypto.Keccak256(append([]byte("\x19Ethereum Signed Message:\n32"), hubDigest...))
	if mtypes.ValidateEthereumSignature(pre, sig, addr) == nil {
		return pbt.Failf("signature-valid-for-other-digest", "the signature for digest D validates for keccak256(prefix || D) as well")
	}
	if psig, err := mtypes.NewEthereumSignature(pre, key); err == nil && mtypes.ValidateEthereumSignature(hubDigest, psig, addr) == nil {
		return pbt.Failf("signature-valid-for-other-digest", "a signature made for keccak256(prefix || D) validates for D")
	}
	v27 := append([]byte{}, sig...)
	v27[64] += 27
	if err := mtypes.ValidateEthereumSignature(hubDigest, v27, addr); err != nil {
		return pbt.Failf("v27-form-rejected", "signature with v=27/28 rejected: %v", err)
	}
	vbad := append([]byte{}, sig...)
	vbad[64] ^= 1
	if mtypes.ValidateEthereumSignature(hubDigest, vbad, addr) == nil {
		return pbt.Failf("wrong-recovery-id-accepted", "signature with flipped recovery id validates")
	}

	// ---- the contract itself
	if !c.Contract {
		return nil
	}
	rec.Label("asked-contract")
	var gid32 [32]byte
	copy(gid32[:], gid)
	esig, _ := evm.SigFromBytes(sig)
	switch c.Kind {
	case "valset":
		if len(c.Members) > 60 {
			return nil
		}
		var vals []common.Address
		var pows []*big.Int
		sum := new(big.Int)
		for _, m := range c.Members {
			vals = append(vals, common.Address(a20(m.Addr)))
			p := new(big.Int).SetUint64(m.Power)
			pows = append(pows, p)
			sum.Add(sum, p)
		}
		if c.Nonce == 0 {
			// the constructor computes the checkpoint of the initial set with nonce 0
			if sum.Sign() == 0 {
				return nil
			}
			ch, err := evm.NewChain(gid32, new(big.Int).Sub(sum, big.NewInt(1)), vals, pows, 10)
			if err != nil {
				return pbt.Failf("harness", "deploy: %v", err)
			}
			got := ch.Checkpoint()
			if !bytes.Equal(got[:], hubDigest) {
				return pbt.Failf("contract-checkpoint-differs", "contract stores %x for the initial set, hub computes %x", got, hubDigest)
			}
			return nil
		}
		// update from a one-member set signed with our key
		cur := evm.SignerSet{Vals: []common.Address{addr}, Powers: []*big.Int{big.NewInt(10)}, Nonce: big.NewInt(0)}
		ch, err := evm.NewChain(gid32, big.NewInt(5), cur.Vals, cur.Powers, 10)
		if err != nil {
			return pbt.Failf("harness", "deploy: %v", err)
		}
		next := evm.SignerSet{Vals: vals, Powers: pows, Nonce: new(big.Int).SetUint64(c.Nonce)}
		if err := ch.UpdateValset(evm.Deployer, next, cur, []evm.Sig{esig}); err != nil {
			if strings.Contains(err.Error(), sigMismatch) {
				return pbt.Failf("contract-rejects-hub-signature", "updateValset: the contract's hash of the new set differs from the digest the hub signs (%v)", err)
			}
			return pbt.Failf("harness", "updateValset: %v", err)
		}
		got := ch.Checkpoint()
		if !bytes.Equal(got[:], hubDigest) {
			return pbt.Failf("contract-checkpoint-differs", "contract stores %x after the update, hub computes %x", got, hubDigest)
		}
	case "batch", "logic":
		cur := evm.SignerSet{Vals: []common.Address{addr}, Powers: []*big.Int{big.NewInt(10)}, Nonce: big.NewInt(0)}
		ch, err := evm.NewChain(gid32, big.NewInt(5), cur.Vals, cur.Powers, 10)
		if err != nil {
			return pbt.Failf("harness", "deploy: %v", err)
		}
		if c.Timeout <= ch.Block || c.Nonce == 0 {
			return nil // the contract refuses before it looks at signatures
		}
		if c.Kind == "batch" {
			b := evm.Batch{Nonce: new(big.Int).SetUint64(c.Nonce), Token: common.Address(a20(c.Token)), Timeout: new(big.Int).SetUint64(c.Timeout)}
			for _, tx := range c.Txs {
				b.Amounts = append(b.Amounts, bi(tx.Amount))
				b.Fees = append(b.Fees, bi(tx.Fee))
				b.Destinations = append(b.Destinations, common.Address(a20(tx.Dest)))
			}
			err = ch.SubmitBatch(evm.Deployer, cur, []evm.Sig{esig}, b)
		} else {
			var scope [32]byte
			copy(scope[:], mustHex(c.Scope))
			a := evm.LogicCall{LogicContractAddress: common.Address(a20(c.Logic)), Payload: mustHex(c.Payload), TimeOut: new(big.Int).SetUint64(c.Timeout),
				InvalidationId: scope, InvalidationNonce: new(big.Int).SetUint64(c.Nonce)}
			for _, tx := range c.Txs {
				a.TransferAmounts = append(a.TransferAmounts, bi(tx.Amount))
				a.TransferTokenContracts = append(a.TransferTokenContracts, common.Address(a20(tx.Dest)))
			}
			for _, tx := range c.Fees {
				a.FeeAmounts = append(a.FeeAmounts, bi(tx.Amount))
				a.FeeTokenContracts = append(a.FeeTokenContracts, common.Address(a20(tx.Dest)))
			}
			err = ch.SubmitLogicCall(evm.Deployer, cur, []evm.Sig{esig}, a)
		}
		// anything after the signature check (token transfers to unknown contracts, ...) may
		// still revert; only a signature mismatch means the two hashes differ
		if err != nil && strings.Contains(err.Error(), sigMismatch) {
			return pbt.Failf("contract-rejects-hub-signature", "%s: the contract's hash differs from the digest the hub signs (%v)", c.Kind, err)
		}
		// and a signature over any other digest must be refused
		bad, _ := mtypes.NewEthereumSignature(flipped, key)
		bsig, _ := evm.SigFromBytes(bad)
		ch2, _ := evm.NewChain(gid32, big.NewInt(5), cur.Vals, cur.Powers, 10)
		var err2 error
		if c.Kind == "batch" {
			b := evm.Batch{Nonce: new(big.Int).SetUint64(c.Nonce), Token: common.Address(a20(c.Token)), Timeout: new(big.Int).SetUint64(c.Timeout)}
			for _, tx := range c.Txs {
				b.Amounts = append(b.Amounts, bi(tx.Amount))
				b.Fees = append(b.Fees, bi(tx.Fee))
				b.Destinations = append(b.Destinations, common.Address(a20(tx.Dest)))
			}
			err2 = ch2.SubmitBatch(evm.Deployer, cur, []evm.Sig{bsig}, b)
			if err2 == nil || !strings.Contains(err2.Error(), sigMismatch) {
				return pbt.Failf("contract-accepts-other-digest", "submitBatch with a signature over another digest: %v", err2)
			}
		}
	}
	return nil
}

func checkC07() *pbt.Check {
	return &pbt.Check{
		ID:          "C07",
		Rule:        "signer sets (0..150 members incl. duplicates, any uint64 powers), batches (0..100 transfers, amounts/fees up to 2^256-1, any 20-byte token) and contract calls (0..5 tokens/fees, payload 0..2048 bytes, scope 0..32 bytes) with gravity ids of 0..32 bytes and nonces/timeouts over the whole uint64 range with boundary bias; judged by an independent abi.encode+keccak and, in a third of the cases, by the real Hub2 bytecode; non-trivial = arrays of length >=2, or an integer >= 2^63, or a payload >= 33 bytes; distinct = distinct case JSON",
		Gen:         genSigCase,
		New:         func() interface{} { return &SigCase{} },
		Run:         runSigCase,
		Assumptions: []string{"the committed bytecode in solidity/contracts/Hub2.go is the compilation of Hub2.sol (no solc in the sandbox)", "the contract is asked only when it would reach its signature check (timeout above the block, nonce > 0)"},
	}
}

func TestC07(t *testing.T) { checkC07().Main(t) }
