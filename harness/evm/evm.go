// Package evm runs the real Hub2 contract (bytecode and ABI are parsed at run
// time from /repo/solidity/contracts/Hub2.go, the abigen output committed in
// the repository) on go-ethereum's in-process EVM.
package evm

import (
	"errors"
	"fmt"
	"io/ioutil"
	"math/big"
	"os"
	"path/filepath"
	"regexp"
	"strconv"
	"strings"
	"sync"

	"github.com/ethereum/go-ethereum/accounts/abi"
	"github.com/ethereum/go-ethereum/common"
	"github.com/ethereum/go-ethereum/core/rawdb"
	"github.com/ethereum/go-ethereum/core/state"
	"github.com/ethereum/go-ethereum/core/types"
	"github.com/ethereum/go-ethereum/core/vm/runtime"
	"github.com/ethereum/go-ethereum/params"
)

type Artifact struct {
	ABI abi.ABI
	Bin []byte
}

var (
	artOnce sync.Once
	artHub  Artifact
	artERC  Artifact
	artErr  error
)

func repoRoot() string {
	if r := os.Getenv("VERIF_REPO"); r != "" {
		return r
	}
	return "/repo"
}

var reABI = regexp.MustCompile(`(?s)ABI:\s*("(?:[^"\\]|\\.)*")`)
var reBin = regexp.MustCompile(`Bin:\s*"(0x[0-9a-fA-F]+)"`)

func loadArtifact(file string) (Artifact, error) {
	b, err := ioutil.ReadFile(file)
	if err != nil {
		return Artifact{}, err
	}
	m := reABI.FindSubmatch(b)
	if m == nil {
		return Artifact{}, fmt.Errorf("%s: no ABI literal", file)
	}
	js, err := strconv.Unquote(string(m[1]))
	if err != nil {
		return Artifact{}, err
	}
	a, err := abi.JSON(strings.NewReader(js))
	if err != nil {
		return Artifact{}, err
	}
	m2 := reBin.FindSubmatch(b)
	if m2 == nil {
		return Artifact{}, fmt.Errorf("%s: no Bin literal", file)
	}
	return Artifact{ABI: a, Bin: common.FromHex(string(m2[1]))}, nil
}

// Artifacts returns the Hub2 and CosmosERC20 contract artifacts.
func Artifacts() (Artifact, Artifact, error) {
	artOnce.Do(func() {
		dir := filepath.Join(repoRoot(), "solidity", "contracts")
		artHub, artErr = loadArtifact(filepath.Join(dir, "Hub2.go"))
		if artErr == nil {
			artERC, artErr = loadArtifact(filepath.Join(dir, "CosmosERC20.go"))
		}
	})
	return artHub, artERC, artErr
}

// Chain is one EVM chain with a deployed Hub2 instance.
type Chain struct {
	SDB   *state.StateDB
	Block uint64
	Hub   common.Address
	hub   Artifact
	erc   Artifact
	seen  int // logs already returned
}

var Deployer = common.HexToAddress("0x00000000000000000000000000000000000d3910")

func (c *Chain) cfg(from common.Address) *runtime.Config {
	return &runtime.Config{
		ChainConfig: params.AllEthashProtocolChanges,
		State:       c.SDB,
		GasLimit:    200_000_000,
		Origin:      from,
		BlockNumber: new(big.Int).SetUint64(c.Block),
		Difficulty:  big.NewInt(1),
		Value:       new(big.Int),
		GasPrice:    new(big.Int),
	}
}

func newState() *state.StateDB {
	sdb, err := state.New(common.Hash{}, state.NewDatabase(rawdb.NewMemoryDatabase()), nil)
	if err != nil {
		panic(err)
	}
	return sdb
}

// NewChain deploys Hub2 with the given initial signer set.
func NewChain(gravityID [32]byte, threshold *big.Int, vals []common.Address, powers []*big.Int, startBlock uint64) (*Chain, error) {
	hub, erc, err := Artifacts()
	if err != nil {
		return nil, err
	}
	c := &Chain{SDB: newState(), Block: startBlock, hub: hub, erc: erc}
	args, err := hub.ABI.Pack("", gravityID, threshold, vals, powers, common.Address{}, Deployer)
	if err != nil {
		return nil, err
	}
	_, addr, _, err := runtime.Create(append(append([]byte{}, hub.Bin...), args...), c.cfg(Deployer))
	if err != nil {
		return nil, fmt.Errorf("deploy Hub2: %w", err)
	}
	c.Hub = addr
	return c, nil
}

// Copy returns an independent copy of the chain (for what-if executions).
func (c *Chain) Copy() *Chain {
	d := *c
	d.SDB = c.SDB.Copy()
	return &d
}

// DeployERC20 deploys a CosmosERC20 whose whole supply (2^256-1) belongs to holder.
func (c *Chain) DeployERC20(holder common.Address, decimals uint8) (common.Address, error) {
	args, err := c.erc.ABI.Pack("", holder, "Token", "TKN", decimals)
	if err != nil {
		return common.Address{}, err
	}
	_, addr, _, err := runtime.Create(append(append([]byte{}, c.erc.Bin...), args...), c.cfg(Deployer))
	return addr, err
}

// Call executes a transaction; a revert is returned as error with its reason.
func (c *Chain) Call(from, to common.Address, input []byte) ([]byte, error) {
	ret, _, err := runtime.Call(to, input, c.cfg(from))
	if err != nil {
		if reason, e2 := abi.UnpackRevert(ret); e2 == nil {
			return ret, fmt.Errorf("revert: %s", reason)
		}
		return ret, err
	}
	return ret, nil
}

// NewLogs returns the logs emitted since the last call of NewLogs.
func (c *Chain) NewLogs() []*types.Log {
	all := c.SDB.Logs()
	out := all[c.seen:]
	c.seen = len(all)
	return out
}

func (c *Chain) HubCall(from common.Address, method string, args ...interface{}) ([]interface{}, error) {
	in, err := c.hub.ABI.Pack(method, args...)
	if err != nil {
		return nil, fmt.Errorf("pack %s: %w", method, err)
	}
	ret, err := c.Call(from, c.Hub, in)
	if err != nil {
		return nil, err
	}
	if len(c.hub.ABI.Methods[method].Outputs) == 0 {
		return nil, nil
	}
	return c.hub.ABI.Unpack(method, ret)
}

func (c *Chain) ERCCall(token, from common.Address, method string, args ...interface{}) ([]interface{}, error) {
	in, err := c.erc.ABI.Pack(method, args...)
	if err != nil {
		return nil, err
	}
	ret, err := c.Call(from, token, in)
	if err != nil {
		return nil, err
	}
	if len(c.erc.ABI.Methods[method].Outputs) == 0 {
		return nil, nil
	}
	return c.erc.ABI.Unpack(method, ret)
}

func (c *Chain) BalanceOf(token, who common.Address) *big.Int {
	out, err := c.ERCCall(token, Deployer, "balanceOf", who)
	if err != nil {
		panic(err)
	}
	return out[0].(*big.Int)
}

func (c *Chain) Checkpoint() [32]byte {
	out, err := c.HubCall(Deployer, "state_lastValsetCheckpoint")
	if err != nil {
		panic(err)
	}
	return out[0].([32]byte)
}

func (c *Chain) uintView(name string, args ...interface{}) *big.Int {
	out, err := c.HubCall(Deployer, name, args...)
	if err != nil {
		panic(err)
	}
	return out[0].(*big.Int)
}

func (c *Chain) LastEventNonce() uint64  { return c.uintView("state_lastEventNonce").Uint64() }
func (c *Chain) LastValsetNonce() uint64 { return c.uintView("state_lastValsetNonce").Uint64() }
func (c *Chain) LastBatchNonce(token common.Address) uint64 {
	return c.uintView("lastBatchNonce", token).Uint64()
}

// Sig is one validator signature in the contract's (v, r, s) form; V == 0 means "no signature".
type Sig struct {
	V uint8
	R [32]byte
	S [32]byte
}

// SigFromBytes converts a 65-byte [R || S || V] signature (V 0/1 or 27/28).
func SigFromBytes(b []byte) (Sig, error) {
	if len(b) != 65 {
		return Sig{}, errors.New("signature must be 65 bytes")
	}
	var s Sig
	copy(s.R[:], b[:32])
	copy(s.S[:], b[32:64])
	s.V = b[64]
	if s.V < 27 {
		s.V += 27
	}
	return s, nil
}

func splitSigs(sigs []Sig) ([]uint8, [][32]byte, [][32]byte) {
	v := make([]uint8, len(sigs))
	r := make([][32]byte, len(sigs))
	s := make([][32]byte, len(sigs))
	for i, x := range sigs {
		v[i], r[i], s[i] = x.V, x.R, x.S
	}
	return v, r, s
}

type SignerSet struct {
	Vals   []common.Address
	Powers []*big.Int
	Nonce  *big.Int
}

func (c *Chain) UpdateValset(from common.Address, next, cur SignerSet, sigs []Sig) error {
	v, r, s := splitSigs(sigs)
	_, err := c.HubCall(from, "updateValset", next.Vals, next.Powers, next.Nonce, cur.Vals, cur.Powers, cur.Nonce, v, r, s)
	return err
}

type Batch struct {
	Amounts      []*big.Int
	Destinations []common.Address
	Fees         []*big.Int
	Nonce        *big.Int
	Token        common.Address
	Timeout      *big.Int
}

func (c *Chain) SubmitBatch(from common.Address, cur SignerSet, sigs []Sig, b Batch) error {
	v, r, s := splitSigs(sigs)
	_, err := c.HubCall(from, "submitBatch", cur.Vals, cur.Powers, cur.Nonce, v, r, s, b.Amounts, b.Destinations, b.Fees, b.Nonce, b.Token, b.Timeout)
	return err
}

// LogicCall mirrors the contract's LogicCallArgs struct.
type LogicCall struct {
	TransferAmounts        []*big.Int
	TransferTokenContracts []common.Address
	FeeAmounts             []*big.Int
	FeeTokenContracts      []common.Address
	LogicContractAddress   common.Address
	Payload                []byte
	TimeOut                *big.Int
	InvalidationId         [32]byte
	InvalidationNonce      *big.Int
}

func (c *Chain) SubmitLogicCall(from common.Address, cur SignerSet, sigs []Sig, a LogicCall) error {
	v, r, s := splitSigs(sigs)
	_, err := c.HubCall(from, "submitLogicCall", cur.Vals, cur.Powers, cur.Nonce, v, r, s, a)
	return err
}

// Event is a decoded Hub2 log.
type Event struct {
	Name   string
	Fields map[string]interface{}
	Block  uint64
}

// DecodeLogs decodes Hub2 events among the given logs.
func (c *Chain) DecodeLogs(logs []*types.Log) []Event {
	var out []Event
	for _, l := range logs {
		if l.Address != c.Hub || len(l.Topics) == 0 {
			continue
		}
		ev, err := c.hub.ABI.EventByID(l.Topics[0])
		if err != nil {
			continue
		}
		f := map[string]interface{}{}
		if err := c.hub.ABI.UnpackIntoMap(f, ev.Name, l.Data); err != nil {
			panic(err)
		}
		// indexed fields
		var indexed abi.Arguments
		for _, a := range ev.Inputs {
			if a.Indexed {
				indexed = append(indexed, a)
			}
		}
		if err := abi.ParseTopicsIntoMap(f, indexed, l.Topics[1:]); err != nil {
			panic(err)
		}
		out = append(out, Event{Name: ev.Name, Fields: f, Block: c.Block})
	}
	return out
}

func (c *Chain) HubABI() abi.ABI { return c.hub.ABI }
