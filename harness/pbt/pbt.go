// Package pbt is the small amount of glue every property check shares: draw a
// case as plain data with rapid, execute it against the real code, classify
// the outcome, count what was generated, save a shrunk failure as a JSON
// replay file, and write an evidence shard for the driver to merge.
package pbt

import (
	"crypto/sha256"
	"encoding/hex"
	"encoding/json"
	"fmt"
	"io/ioutil"
	"os"
	"path/filepath"
	"sort"
	"strconv"
	"strings"
	"sync"
	"testing"
	"time"

	"pgregory.net/rapid"
)

// Failure is what a case execution reports when the property does not hold.
// Key identifies the root cause narrowly enough to be compared with
// known_findings.json; an empty Key never matches a known finding.
type Failure struct {
	Key string `json:"key"`
	Msg string `json:"msg"`
}

func Failf(key, format string, a ...interface{}) *Failure {
	return &Failure{Key: key, Msg: fmt.Sprintf(format, a...)}
}

// Rec collects per-case facts for the evidence file.
type Rec struct {
	NonTrivial bool
	Shape      string   // cases with equal Shape count once in distinct_nontrivial
	Labels     []string // classification counters
	Excluded   int      // inputs steered away from because of an open finding
	// AlsoKnown: keys of further failures seen in the same case that are listed as open findings (a case can run
	// into several; the returned Failure is only the first)
	AlsoKnown []string
}

func (r *Rec) Label(l string) { r.Labels = append(r.Labels, l) }

type Check struct {
	ID string
	// Part distinguishes several tests serving one property (used in replay file names).
	Part string
	Rule string
	// Gen draws a case; it must be JSON-serialisable and round-trip through New.
	Gen func(t *rapid.T) interface{}
	// New returns a pointer to a zero case for decoding replay files.
	New func() interface{}
	// Run executes a case. It must be a pure function of the case and the code.
	Run func(c interface{}, rec *Rec) *Failure
	// Assumptions copied into the evidence file.
	Assumptions []string
	Level       string // default "exploration"
}

type knownFinding struct {
	Property string `json:"property"`
	Key      string `json:"key"`
	Status   string `json:"status"` // open | fixed
	What     string `json:"what"`
	Witness  string `json:"witness"`
	Commit   string `json:"commit,omitempty"`
	Part     string `json:"part,omitempty"` // which test of the property the witness belongs to
}

type shard struct {
	PropertyID  string                 `json:"property_id"`
	Tier        string                 `json:"tier"`
	Seed        int64                  `json:"seed"`
	Level       string                 `json:"level"`
	Evaluations int                    `json:"evaluations"`
	Shapes      []string               `json:"shapes"`
	Rule        string                 `json:"rule"`
	Labels      map[string]int         `json:"labels"`
	Samples     []interface{}          `json:"samples"`
	Excluded    int                    `json:"excluded"`
	Known       map[string]int         `json:"known_finding_hits"`
	KnownShown  []string               `json:"known_finding_lines"`
	Replayed    int                    `json:"replayed_regressions"`
	Violations  int                    `json:"violations"`
	WallS       float64                `json:"wall_s"`
	Assumptions []string               `json:"assumptions"`
	Extra       map[string]interface{} `json:"extra,omitempty"`
}

func Root() string {
	if r := os.Getenv("VERIF_ROOT"); r != "" {
		return r
	}
	return "/verif"
}

// BinDir is where the driver put the helper binaries it built.
func BinDir() string {
	if d := os.Getenv("VERIF_BIN"); d != "" {
		return d
	}
	return filepath.Join(Root(), "harness", "bin")
}

func Tier() string {
	if t := os.Getenv("VERIF_TIER"); t == "thorough" {
		return "thorough"
	}
	return "quick"
}

func Seed() int64 {
	s, _ := strconv.ParseInt(os.Getenv("VERIF_SEED"), 10, 64)
	return s
}

func loadKnown(id string) []knownFinding {
	var all []knownFinding
	b, err := ioutil.ReadFile(filepath.Join(Root(), "known_findings.json"))
	if err != nil {
		return nil
	}
	if err := json.Unmarshal(b, &all); err != nil {
		panic("known_findings.json: " + err.Error())
	}
	var out []knownFinding
	for _, k := range all {
		if k.Property == id {
			out = append(out, k)
		}
	}
	return out
}

// OpenKeys returns the keys of the open known findings of a property, for checks that must
// look past a recorded difference to see whether anything unrecorded differs as well.
func OpenKeys(id string) map[string]bool {
	out := map[string]bool{}
	for _, k := range loadKnown(id) {
		if k.Status == "open" {
			out[k.Key] = true
		}
	}
	return out
}

type state struct {
	mu         sync.Mutex
	sh         shard
	shapes     map[string]bool
	lastFail   []byte
	lastMsg    *Failure
	lastSample interface{}
}

func shapeHash(s string) string {
	h := sha256.Sum256([]byte(s))
	return hex.EncodeToString(h[:8])
}

func (st *state) account(c interface{}, rec *Rec) {
	st.mu.Lock()
	defer st.mu.Unlock()
	st.sh.Evaluations++
	st.sh.Excluded += rec.Excluded
	for _, l := range rec.Labels {
		st.sh.Labels[l]++
	}
	if rec.NonTrivial {
		st.sh.Labels["nontrivial"]++
		sh := rec.Shape
		if sh == "" {
			b, _ := json.Marshal(c)
			sh = string(b)
		}
		hs := shapeHash(sh)
		if !st.shapes[hs] {
			st.shapes[hs] = true
			if len(st.sh.Samples) < 3 {
				st.sh.Samples = append(st.sh.Samples, c)
			}
		}
	}
}

// Main is the body of the Test function of a property.
func (ck *Check) Main(t *testing.T) {
	start := time.Now()
	level := ck.Level
	if level == "" {
		level = "exploration"
	}
	st := &state{shapes: map[string]bool{}}
	st.sh = shard{PropertyID: ck.ID, Tier: Tier(), Seed: Seed(), Level: level, Rule: ck.Rule,
		Labels: map[string]int{}, Known: map[string]int{}, Assumptions: ck.Assumptions}
	known := loadKnown(ck.ID)
	open := map[string]knownFinding{}
	for _, k := range known {
		if k.Status == "open" {
			open[k.Key] = k
		}
	}
	outDir := os.Getenv("VERIF_OUT")
	if outDir == "" {
		outDir = filepath.Join(Root(), "evidence", ".shards")
		if d := os.Getenv("VERIF_SHARDS"); d != "" {
			outDir = d
		}
	}
	os.MkdirAll(outDir, 0o755)
	shardName := os.Getenv("VERIF_SHARD")
	if shardName == "" {
		shardName = "0"
	}

	violation := func(caseJSON []byte, f *Failure) {
		sum := sha256.Sum256(caseJSON)
		dir := filepath.Join(Root(), "replays", ck.ID)
		os.MkdirAll(dir, 0o755)
		name := "fail-"
		if ck.Part != "" {
			name += ck.Part + "-"
		}
		p := filepath.Join(dir, name+hex.EncodeToString(sum[:6])+".json")
		ioutil.WriteFile(p, caseJSON, 0o644)
		st.sh.Violations++
		fmt.Printf("VIOLATION property=%s replay=%s\n", ck.ID, p)
		fmt.Printf("  cause: [%s] %s\n", f.Key, f.Msg)
	}

	finish := func() {
		st.mu.Lock()
		defer st.mu.Unlock()
		for s := range st.shapes {
			st.sh.Shapes = append(st.sh.Shapes, s)
		}
		sort.Strings(st.sh.Shapes)
		if len(st.sh.Samples) == 0 && st.lastSample != nil {
			st.sh.Samples = append(st.sh.Samples, st.lastSample)
		}
		st.sh.WallS = time.Since(start).Seconds()
		b, _ := json.MarshalIndent(st.sh, "", " ")
		ioutil.WriteFile(filepath.Join(outDir, ck.ID+"."+shardName+".json"), b, 0o644)
	}

	runOne := func(c interface{}) (*Failure, *Rec) {
		rec := &Rec{}
		f := ck.Run(c, rec)
		return f, rec
	}

	decode := func(path string) (interface{}, []byte, error) {
		b, err := ioutil.ReadFile(path)
		if err != nil {
			return nil, nil, err
		}
		c := ck.New()
		if err := json.Unmarshal(b, c); err != nil {
			return nil, nil, err
		}
		return c, b, nil
	}

	// replay mode: one file, verdict only
	if rp := os.Getenv("VERIF_REPLAY"); rp != "" {
		c, b, err := decode(rp)
		if err != nil {
			t.Fatalf("replay %s: %v", rp, err)
		}
		f, _ := runOne(c)
		if f != nil {
			if _, ok := open[f.Key]; ok {
				fmt.Printf("KNOWN-FINDING: property=%s %s\n", ck.ID, open[f.Key].What)
				return
			}
			fmt.Printf("VIOLATION property=%s replay=%s\n  cause: [%s] %s\n", ck.ID, rp, f.Key, f.Msg)
			_ = b
			t.Fail()
			return
		}
		fmt.Printf("REPLAY-OK property=%s file=%s\n", ck.ID, rp)
		return
	}

	failed := false
	t.Cleanup(func() {
		if st.lastFail != nil && t.Failed() && !failed {
			violation(st.lastFail, st.lastMsg)
		}
		finish()
	})

	// 1. witnesses of open findings and regression inputs of fixed ones
	shown := map[string]bool{} // open findings whose KNOWN-FINDING line was printed
	show := func(key string) {
		k, ok := open[key]
		if !ok || shown[key] || k.Part != ck.Part {
			return
		}
		shown[key] = true
		line := fmt.Sprintf("KNOWN-FINDING: property=%s %s", ck.ID, k.What)
		fmt.Println(line)
		st.sh.KnownShown = append(st.sh.KnownShown, line)
	}
	also := func(rec *Rec) {
		st.mu.Lock()
		defer st.mu.Unlock()
		for _, key := range rec.AlsoKnown {
			if _, ok := open[key]; ok {
				st.sh.Known[key]++
				show(key)
			}
		}
	}
	for _, k := range known {
		if k.Witness == "" || k.Part != ck.Part {
			continue
		}
		p := filepath.Join(Root(), k.Witness)
		c, b, err := decode(p)
		if err != nil {
			t.Fatalf("witness %s: %v", p, err)
		}
		f, rec := runOne(c)
		st.account(c, rec)
		st.sh.Replayed++
		also(rec)
		if f == nil && k.Status == "open" && shown[k.Key] {
			continue
		}
		switch {
		case f == nil:
			// a fixed finding stays fixed; an open one no longer reproduces with this witness
			if k.Status == "open" {
				fmt.Printf("NOTE: the witness %s of the open finding [%s] does not fail any more\n", k.Witness, k.Key)
			}
		case k.Status == "open" && f.Key == k.Key:
			show(k.Key)
		default:
			if _, ok := open[f.Key]; ok {
				// the witness of one finding also runs into another recorded, still open finding
				st.sh.Known[f.Key]++
				show(f.Key)
				continue
			}
			failed = true
			violation(b, f)
			t.Fail()
		}
	}
	// 2. saved regression inputs
	files, _ := filepath.Glob(filepath.Join(Root(), "replays", ck.ID, "reg-*.json"))
	sort.Strings(files)
	for _, p := range files {
		if ck.Part != "" && !strings.HasPrefix(filepath.Base(p), "reg-"+ck.Part+"-") {
			continue // a regression input of another test of this property
		}
		c, b, err := decode(p)
		if err != nil {
			t.Fatalf("regression %s: %v", p, err)
		}
		f, rec := runOne(c)
		st.account(c, rec)
		st.sh.Replayed++
		if f != nil {
			if _, ok := open[f.Key]; ok {
				st.sh.Known[f.Key]++
				continue
			}
			failed = true
			violation(b, f)
			t.Fail()
		}
	}
	if failed {
		return
	}

	// 3. generated search
	rapid.Check(t, func(rt *rapid.T) {
		c := ck.Gen(rt)
		// round-trip through JSON so that what runs is exactly what a replay file holds
		b, err := json.Marshal(c)
		if err != nil {
			rt.Fatalf("case not serialisable: %v", err)
		}
		c2 := ck.New()
		if err := json.Unmarshal(b, c2); err != nil {
			rt.Fatalf("case does not round-trip: %v", err)
		}
		f, rec := runOne(c2)
		st.account(c2, rec)
		st.mu.Lock()
		st.lastSample = c2
		st.mu.Unlock()
		if f == nil {
			also(rec)
		}
		if f != nil {
			if k, ok := open[f.Key]; ok {
				st.mu.Lock()
				st.sh.Known[f.Key]++
				_ = k
				show(f.Key) // the listed finding met by a generated input although its stored witness did not show it
				st.mu.Unlock()
				also(rec)
				return
			}
			st.mu.Lock()
			st.lastFail = b
			st.lastMsg = f
			st.mu.Unlock()
			rt.Fatalf("[%s] %s", f.Key, f.Msg)
		}
	})
}

// FuzzBody adapts a check to native `go test -fuzz` through rapid.MakeFuzz: the fuzzer's bytes drive the
// same generator, the same executor judges, and a failure is saved as the usual JSON replay file.
func (ck *Check) FuzzBody() func(*rapid.T) {
	open := OpenKeys(ck.ID)
	return func(rt *rapid.T) {
		c := ck.Gen(rt)
		b, err := json.Marshal(c)
		if err != nil {
			rt.Fatalf("case not serialisable: %v", err)
		}
		c2 := ck.New()
		if err := json.Unmarshal(b, c2); err != nil {
			rt.Fatalf("case does not round-trip: %v", err)
		}
		f := ck.Run(c2, &Rec{})
		if f == nil || open[f.Key] {
			return
		}
		sum := sha256.Sum256(b)
		dir := filepath.Join(Root(), "replays", ck.ID)
		os.MkdirAll(dir, 0o755)
		name := "fail-"
		if ck.Part != "" {
			name += ck.Part + "-"
		}
		p := filepath.Join(dir, name+"fuzz-"+hex.EncodeToString(sum[:6])+".json")
		ioutil.WriteFile(p, b, 0o644)
		fmt.Printf("VIOLATION property=%s replay=%s\n  cause: [%s] %s\n", ck.ID, p, f.Key, f.Msg)
		rt.Fatalf("[%s] %s", f.Key, f.Msg)
	}
}
