package propsconn

import (
	"bytes"
	"encoding/json"
	"fmt"
	"math/big"
	"os/exec"
	"path/filepath"
	"testing"

	sdk "github.com/cosmos/cosmos-sdk/types"
	"pgregory.net/rapid"

	mtypes "github.com/MinterTeam/mhub2/module/x/mhub2/types"

	"verifharness/pbt"
	"verifharness/sim"
)

// The connector's claim builder (minter-connector/cosmos.CreateClaims), run through a helper binary, must turn
// what the scanner found into claims that carry exactly the locked value, the right destination and the
// assigned nonce, in nonce order; fed to the hub with quorum, a deposit to the hub credits exactly the value.

type ClaimDeposit struct {
	Kind   int    `json:"kind"` // 0 hub, 1 ethereum, 2 bsc
	Amount string `json:"amount"`
	Fee    string `json:"fee"`
	Who    int    `json:"who"`
	Coin   int    `json:"coin"`
}

type ClaimCase struct {
	Order    []int          `json:"order"` // kinds in event-nonce order: 0 deposit, 1 batch, 2 valset
	Deposits []ClaimDeposit `json:"deposits"`
	Shuffle  int            `json:"shuffle"`
}

func genClaimCase(t *rapid.T) interface{} {
	c := &ClaimCase{Shuffle: rapid.IntRange(0, 5).Draw(t, "shuffle")}
	n := rapid.IntRange(1, 8).Draw(t, "n")
	for i := 0; i < n; i++ {
		k := rapid.SampledFrom([]int{0, 0, 0, 1, 2}).Draw(t, "kind")
		c.Order = append(c.Order, k)
		if k == 0 {
			amt := new(big.Int).Mul(big.NewInt(rapid.Int64Range(1, 1<<40).Draw(t, "amt")), big.NewInt(rapid.SampledFrom([]int64{1, 1000, 1000000000000}).Draw(t, "scale")))
			c.Deposits = append(c.Deposits, ClaimDeposit{Kind: rapid.IntRange(0, 2).Draw(t, "dkind"), Amount: amt.String(),
				Fee: fmt.Sprint(rapid.Int64Range(0, 1000).Draw(t, "fee")), Who: rapid.IntRange(0, 2).Draw(t, "who"), Coin: rapid.SampledFrom([]int{1, 10}).Draw(t, "coin")})
		}
	}
	return c
}

func runClaimCase(ci interface{}, rec *pbt.Rec) *pbt.Failure {
	c := ci.(*ClaimCase)
	tool := filepath.Join(pbt.BinDir(), "connclaims")
	cfgFile := filepath.Join(pbt.Root(), "harness", "cmd", "connclaims", "connclaims.toml")
	type dep struct {
		Recipient  string
		Amount     string
		Fee        string
		EventNonce uint64
		Sender     string
		CoinID     uint64
		Type       string
		TxHash     string
		Height     uint64
	}
	type bat struct {
		BatchNonce, EventNonce, CoinId uint64
		TxHash                         string
		Height                         uint64
	}
	type vs struct {
		ValsetNonce, EventNonce uint64
		TxHash                  string
		Height                  uint64
		Members                 []*mtypes.ExternalSigner
	}
	var deps []dep
	var bats []bat
	var vss []vs
	want := map[uint64]string{} // nonce -> description of the expected event
	di := 0
	for i, k := range c.Order {
		nonce := uint64(i + 1)
		switch k {
		case 0:
			d := c.Deposits[di]
			di++
			x := dep{Amount: d.Amount, Fee: d.Fee, EventNonce: nonce, Sender: "Mx" + sim.ExtUser(d.Who).Hex()[2:], CoinID: uint64(d.Coin), TxHash: fmt.Sprintf("Mt%062x", nonce), Height: 100 + nonce}
			switch d.Kind {
			case 0:
				x.Type, x.Recipient = "send_to_hub", sim.UserAddr(d.Who).String()
				want[nonce] = fmt.Sprintf("hub|%d|%s|%s|%s|%d", d.Coin, d.Amount, "0x"+x.Sender[2:], x.Recipient, x.Height)
			case 1, 2:
				chain := map[int]string{1: "ethereum", 2: "bsc"}[d.Kind]
				x.Type, x.Recipient = map[int]string{1: "send_to_ethereum", 2: "send_to_bsc"}[d.Kind], sim.ExtUser(d.Who+1).Hex()
				want[nonce] = fmt.Sprintf("chain|%d|%s|%s|%s|%s|%s|%d", d.Coin, d.Amount, d.Fee, "0x"+x.Sender[2:], chain, x.Recipient, x.Height)
			}
			deps = append(deps, x)
		case 1:
			bats = append(bats, bat{BatchNonce: nonce + 50, EventNonce: nonce, CoinId: 1, TxHash: fmt.Sprintf("Mt%062x", nonce), Height: 100 + nonce})
			want[nonce] = fmt.Sprintf("batch|1|%d|%d", nonce+50, 100+nonce)
		case 2:
			vss = append(vss, vs{ValsetNonce: nonce + 7, EventNonce: nonce, TxHash: fmt.Sprintf("Mt%062x", nonce), Height: 100 + nonce,
				Members: []*mtypes.ExternalSigner{{Power: 500, ExternalAddress: sim.ExtUser(1).Hex()}}})
			want[nonce] = fmt.Sprintf("valset|%d|%d|1", nonce+7, 100+nonce)
		}
	}
	// the scanner hands the three lists over separately; their internal order must not matter
	if c.Shuffle%2 == 1 {
		for i, j := 0, len(deps)-1; i < j; i, j = i+1, j-1 {
			deps[i], deps[j] = deps[j], deps[i]
		}
	}
	in, _ := json.Marshal(map[string]interface{}{"orc": sdk.AccAddress(sim.ValAddr(0)).String(), "deposits": deps, "batches": bats, "valsets": vss})
	cmd := exec.Command(tool, "-config", cfgFile)
	cmd.Stdin = bytes.NewReader(in)
	var stderr bytes.Buffer
	cmd.Stderr = &stderr
	out, err := cmd.Output()
	if err != nil {
		return pbt.Failf("claim-builder-fails", "CreateClaims: %v: %s", err, stderr.String())
	}
	var raws []json.RawMessage
	if err := json.Unmarshal(out, &raws); err != nil {
		return pbt.Failf("harness", "tool output: %v", err)
	}
	if len(raws) != len(c.Order) {
		return pbt.Failf("claim-count", "%d bridge events were found, %d claims built", len(c.Order), len(raws))
	}
	cdc := sim.MakeCodec()
	cfg := sim.Config{Tokens: []sim.TokenCfg{{Id: 1, Denom: "hub", Chain: "minter", ExtId: "1", Decimals: 18, Commission: "0.01"}, {Id: 2, Denom: "usdt", Chain: "minter", ExtId: "10", Decimals: 18, Commission: "0.01"},
		{Id: 3, Denom: "hub", Chain: "ethereum", ExtId: "0xA091Bb826756eA25114c512B916754b3fBCb4f63", Decimals: 18, Commission: "0.01"}, {Id: 4, Denom: "usdt", Chain: "bsc", ExtId: "0x55d398326f99059fF775485246999027B3197955", Decimals: 18, Commission: "0.01"}},
		Vals: []sim.ValCfg{{Power: 5, Bonded: true}}, Prices: []sim.PriceCfg{{Name: "hub", Value: "1"}, {Name: "usdt", Value: "1"}, {Name: "eth", Value: "1"}, {Name: "bnb", Value: "1"}}}
	h := sim.NewHub(cfg)
	if err := h.Begin(1, 1600000005); err != nil {
		return nil
	}
	expectBal := map[string]*big.Int{}
	for i, raw := range raws {
		var msg sdk.Msg
		if err := cdc.UnmarshalInterfaceJSON(raw, &msg); err != nil {
			return pbt.Failf("harness", "decode claim %d: %v", i, err)
		}
		m, ok := msg.(*mtypes.MsgSubmitExternalEvent)
		if !ok || m.ChainId != "minter" || m.Signer != sdk.AccAddress(sim.ValAddr(0)).String() {
			return pbt.Failf("claim-envelope", "claim %d is %T for chain %q signed by %q", i, msg, m.ChainId, m.Signer)
		}
		ev, err := mtypes.UnpackEvent(m.Event)
		if err != nil {
			return pbt.Failf("harness", "unpack: %v", err)
		}
		nonce := uint64(i + 1)
		if ev.GetEventNonce() != nonce {
			return pbt.Failf("claims-not-in-nonce-order", "claim #%d carries event nonce %d", i+1, ev.GetEventNonce())
		}
		got := ""
		switch e := ev.(type) {
		case *mtypes.SendToHubEvent:
			got = fmt.Sprintf("hub|%s|%s|%s|%s|%d", e.ExternalCoinId, e.Amount, e.Sender, e.CosmosReceiver, e.ExternalHeight)
			d := e.CosmosReceiver + "|" + map[string]string{"1": "hub", "10": "usdt"}[e.ExternalCoinId]
			if expectBal[d] == nil {
				expectBal[d] = new(big.Int)
			}
		case *mtypes.TransferToChainEvent:
			got = fmt.Sprintf("chain|%s|%s|%s|%s|%s|%s|%d", e.ExternalCoinId, e.Amount, e.Fee, e.Sender, e.ReceiverChainId, e.ExternalReceiver, e.ExternalHeight)
		case *mtypes.BatchExecutedEvent:
			got = fmt.Sprintf("batch|%s|%d|%d", e.ExternalCoinId, e.BatchNonce, e.ExternalHeight)
		case *mtypes.SignerSetTxExecutedEvent:
			got = fmt.Sprintf("valset|%d|%d|%d", e.SignerSetTxNonce, e.ExternalHeight, len(e.Members))
		}
		if got != want[nonce] {
			return pbt.Failf("claim-content", "bridge event with nonce %d was found as [%s] but the claim says [%s]", nonce, want[nonce], got)
		}
		if err := m.ValidateBasic(); err != nil {
			return pbt.Failf("claim-invalid", "claim for nonce %d does not pass ValidateBasic: %v", nonce, err)
		}
		if r := h.Deliver(m); r.Err != nil {
			return pbt.Failf("claim-refused-by-hub", "claim for nonce %d refused: %v", nonce, r.Err)
		}
	}
	if err := h.End(); err != nil {
		return nil
	}
	// deposits to the hub credit exactly the locked value
	di = 0
	sums := map[string]*big.Int{}
	for _, k := range c.Order {
		if k != 0 {
			continue
		}
		d := c.Deposits[di]
		di++
		if d.Kind == 0 {
			key := fmt.Sprintf("%d|%s", d.Who, map[int]string{1: "hub", 10: "usdt"}[d.Coin])
			if sums[key] == nil {
				sums[key] = new(big.Int)
			}
			a, _ := new(big.Int).SetString(d.Amount, 10)
			sums[key].Add(sums[key], a)
		}
	}
	for u := 0; u < 3; u++ {
		for _, dn := range []string{"hub", "usdt"} {
			wantB := sums[fmt.Sprintf("%d|%s", u, dn)]
			if wantB == nil {
				wantB = new(big.Int)
			}
			if got := h.Balance(sim.UserAddr(u), dn); got.Cmp(wantB) != 0 {
				return pbt.Failf("credit-differs-from-locked-value", "user %d holds %s %s after the claims were applied, the Minter deposits to the hub locked %s", u, got, dn, wantB)
			}
		}
	}
	rec.NonTrivial = len(c.Order) >= 2
	rec.Label(fmt.Sprintf("events=%d", len(c.Order)))
	return nil
}

func TestC20Claims(t *testing.T) {
	(&pbt.Check{
		ID:          "C20",
		Part:        "claims",
		Rule:        "lists of deposits (to hub / ethereum / bsc, two coins), executed batches and multisig updates as the scanner produces them, with assigned event nonces, handed to the connector's real CreateClaims (helper binary around minter-connector/cosmos); the claims must come out in nonce order, carry exactly the found values, pass ValidateBasic, be accepted by the hub, and deposits to the hub must credit exactly the locked amounts; non-trivial = >=2 events; distinct = distinct case JSON",
		Gen:         genClaimCase,
		New:         func() interface{} { return &ClaimCase{} },
		Run:         runClaimCase,
		Assumptions: []string{"the scanner in package main is represented by the Deposit/Batch/Valset values it builds (fields copied from main.go relayMinterEvents)"},
	}).Main(t)
}
