package propsconn

import (
	"testing"

	"pgregory.net/rapid"
)

func FuzzC20Cmd(f *testing.F) { f.Fuzz(rapid.MakeFuzz(checkC20Cmd().FuzzBody())) }
