// Package propsconn holds the checks of the Minter connector (C20). It is its
// own package because the connector validates hub recipients with the "hub"
// bech32 prefix, a process-wide setting.
package propsconn

import (
	"encoding/json"
	"fmt"
	"io/ioutil"
	"math/big"
	"net/http/httptest"
	"os"
	"path/filepath"
	"strconv"
	"strings"
	"testing"

	sdk "github.com/cosmos/cosmos-sdk/types"
	"github.com/cosmos/cosmos-sdk/types/bech32"
	"github.com/ethereum/go-ethereum/common"
	"github.com/tendermint/tendermint/libs/log"
	"pgregory.net/rapid"

	"github.com/MinterTeam/mhub2/minter-connector/command"
	"github.com/MinterTeam/mhub2/minter-connector/config"
	mctx "github.com/MinterTeam/mhub2/minter-connector/context"
	"github.com/MinterTeam/mhub2/minter-connector/minter"
	"github.com/MinterTeam/minter-go-sdk/v2/api/http_client"

	"verifharness/connkit"
	"verifharness/pbt"
)

var hubAddr, cosmosAddr, hubBadSum string

func TestMain(m *testing.M) {
	sdk.GetConfig().SetBech32PrefixForAccount("hub", "hubpub")
	raw := []byte{1, 2, 3, 4, 5, 6, 7, 8, 9, 10, 11, 12, 13, 14, 15, 16, 17, 18, 19, 20}
	hubAddr = sdk.AccAddress(raw).String()
	cosmosAddr, _ = bech32.ConvertAndEncode("cosmos", raw)
	hubBadSum = hubAddr[:len(hubAddr)-1] + map[bool]string{true: "q", false: "p"}[hubAddr[len(hubAddr)-1] != 'q']
	goodPayloads[0] = `{"type":"send_to_hub","recipient":"` + hubAddr + `","fee":"0"}`
	badPayloads[0] = `{"type":"send_to_hub","recipient":"` + cosmosAddr + `","fee":"0"}`
	os.Exit(m.Run())
}

const multisig = connkit.Multisig
const otherAddr = connkit.OtherAddr

// the scripted Minter node lives in verifharness/connkit (shared with the check of the connector's package main)
type mTx = connkit.MTx
type mBlock = connkit.MBlock
type node = connkit.Node

// ---------------------------------------------------------------- cursor case

type CursorCase struct {
	Blocks     []mBlock `json:"blocks"`
	StartBlock uint64   `json:"start_block"`
}

var goodPayloads = []string{
	`{"type":"send_to_hub","recipient":"hub1qyqszqgpqyqszqgpqyqszqgpqyqszqgp2kvtcs","fee":"0"}`,
	`{"type":"send_to_ethereum","recipient":"0x58BD8047F441B9D511aEE9c581aEb1caB4FE0b6d","fee":"100"}`,
	`{"type":"send_to_bsc","recipient":"58BD8047F441B9D511aEE9c581aEb1caB4FE0b6d","fee":"989999999999999999999"}`,
}
var badPayloads = []string{
	`{"type":"send_to_hub","recipient":"cosmos1qyqszqgpqyqszqgpqyqszqgpqyqszqgpjnp7du","fee":"0"}`,
	`{"type":"send_to_ethereum","recipient":"0x58BD","fee":"1"}`,
	`{"type":"send_to_bsc","recipient":"0x58BD8047F441B9D511aEE9c581aEb1caB4FE0b6d","fee":"990000000000000000000"}`,
	`{"type":"teleport","recipient":"x","fee":"1"}`,
	`not json`,
	`{"type":"send_to_ethereum","recipient":"0x58BD8047F441B9D511aEE9c581aEb1caB4FE0b6d","fee":"1.5"}`,
	// payloads that parse but leave fields out, and the JSON value null
	`{"fee":"0"}`, `{}`, `null`, `{"recipient":"0x58BD8047F441B9D511aEE9c581aEb1caB4FE0b6d"}`, `{"type":"send_to_hub","fee":"0"}`,
}

func genCursorCase(t *rapid.T) interface{} {
	c := &CursorCase{}
	n := rapid.IntRange(1, 14).Draw(t, "nblocks")
	valset := 1
	for i := 0; i < n; i++ {
		var b mBlock
		k := rapid.SampledFrom([]int{0, 0, 1, 1, 2, 3, 4}).Draw(t, "ntx")
		for j := 0; j < k; j++ {
			switch rapid.IntRange(0, 11).Draw(t, "txkind") {
			case 0, 1, 2, 3:
				b.Txs = append(b.Txs, mTx{Kind: "deposit", Payload: goodPayloads[rapid.IntRange(0, len(goodPayloads)-1).Draw(t, "pl")]})
			case 4:
				b.Txs = append(b.Txs, mTx{Kind: "bad-deposit", Payload: badPayloads[rapid.IntRange(0, len(badPayloads)-1).Draw(t, "pl")]})
			case 5:
				b.Txs = append(b.Txs, mTx{Kind: "send-elsewhere", Payload: goodPayloads[0]})
			case 6, 7:
				b.Txs = append(b.Txs, mTx{Kind: "batch"})
			case 8:
				b.Txs = append(b.Txs, mTx{Kind: "foreign-multisend"})
			case 9:
				valset++
				b.Txs = append(b.Txs, mTx{Kind: "valset", Payload: fmt.Sprint(valset)})
			case 10:
				b.Txs = append(b.Txs, mTx{Kind: "valset-bad", Payload: "x" + fmt.Sprint(valset)})
			default:
				b.Txs = append(b.Txs, mTx{Kind: "other"})
			}
			// now and then the transaction failed on Minter (it is in the block, with a non-zero code): it is no event
			if rapid.IntRange(0, 11).Draw(t, "failed") == 0 {
				b.Txs[len(b.Txs)-1].Failed = true
			}
		}
		c.Blocks = append(c.Blocks, b)
	}
	c.StartBlock = uint64(rapid.IntRange(0, n/3).Draw(t, "start"))
	return c
}

type cursor struct {
	Block, Event, Batch, Valset uint64
}

const startEvent, startBatch, startValset = 1, 1, 0

// reference: the consistent cursor after scanning blocks (start, h]
func refCursor(c *CursorCase, h uint64) cursor {
	cur := cursor{Block: h, Event: startEvent, Batch: startBatch, Valset: startValset}
	for b := c.StartBlock + 1; b <= h; b++ {
		for _, t := range c.Blocks[b-1].Txs {
			if !t.IsEvent() {
				continue
			}
			cur.Event++
			if t.Kind == "batch" {
				cur.Batch++
			}
			if t.Kind == "valset" {
				v, _ := strconv.Atoi(t.Payload)
				cur.Valset = uint64(v)
			}
		}
	}
	return cur
}

func readStatus(path string) (cursor, error) {
	b, err := ioutil.ReadFile(path)
	if err != nil {
		return cursor{}, err
	}
	var s struct {
		B uint64 `json:"last_checked_minter_block"`
		E uint64 `json:"last_event_nonce"`
		T uint64 `json:"last_batch_nonce"`
		V uint64 `json:"last_valset_nonce"`
	}
	if err := json.Unmarshal(b, &s); err != nil {
		return cursor{}, err
	}
	return cursor{s.B, s.E, s.T, s.V}, nil
}

func writeStatus(path string, c cursor) {
	b, _ := json.Marshal(map[string]uint64{"last_checked_minter_block": c.Block, "last_event_nonce": c.Event, "last_batch_nonce": c.Batch, "last_valset_nonce": c.Valset})
	ioutil.WriteFile(path, b, 0o644)
}

func runCursorCase(ci interface{}, rec *pbt.Rec) *pbt.Failure {
	c := ci.(*CursorCase)
	nd := &node{Blocks: c.Blocks}
	srv := httptest.NewServer(nd)
	defer srv.Close()
	client, err := http_client.New(srv.URL)
	if err != nil {
		return pbt.Failf("harness", "%v", err)
	}
	dir, _ := ioutil.TempDir("", "c20")
	defer os.RemoveAll(dir)
	file := filepath.Join(dir, "connector-status.json")
	cfg := config.MinterConfig{StartBlock: c.StartBlock, StartEventNonce: startEvent, StartBatchNonce: startBatch, StartValsetNonce: startValset}
	n := uint64(len(c.Blocks))
	totalEvents := refCursor(c, n).Event - startEvent
	restarts, insideBusy := 0, 0
	var partly *pbt.Failure

	// every stored cursor position h0 (none = first start), every node height b >= h0, every acknowledged nonce
	for h0 := int64(-1); h0 <= int64(n); h0++ {
		if h0 >= 0 && uint64(h0) < c.StartBlock {
			continue
		}
		for b := c.StartBlock; b <= n; b++ {
			if h0 >= 0 && b < uint64(h0) {
				continue
			}
			for ack := uint64(0); ack <= totalEvents; ack++ {
				os.Remove(file)
				stored := cursor{Block: c.StartBlock, Event: startEvent, Batch: startBatch, Valset: startValset}
				if h0 >= 0 {
					stored = refCursor(c, uint64(h0))
					writeStatus(file, stored)
				}
				nd.SetLatest(b)
				ctx := mctx.Context{MinterMultisigAddr: multisig, MinterClient: client, Logger: log.NewNopLogger()}
				ctx.LoadStatus(file, cfg)
				ctx = minter.GetLatestMinterBlockAndNonce(ctx, ack)
				restarts++
				mem := cursor{ctx.LastCheckedMinterBlock(), ctx.LastEventNonce(), ctx.LastBatchNonce(), ctx.LastValsetNonce()}
				got, err := readStatus(file)
				if err != nil {
					// nothing was scanned and nothing had been stored: the defaults are the cursor
					got = stored
				}
				if got.Block > b || got.Block < c.StartBlock {
					return pbt.Failf("cursor-out-of-range", "stored position %d, node height %d, ack %d: persisted last-checked block %d", h0, b, ack, got.Block)
				}
				want := refCursor(c, got.Block)
				busy := 0
				if got.Block+1 <= n {
					for _, t := range c.Blocks[got.Block].Txs {
						if t.IsEvent() {
							busy++
						}
					}
				}
				if busy >= 2 && got.Block < b {
					insideBusy++
				}
				if got != want {
					key := "cursor-inconsistent"
					if busy >= 2 && got.Block < b && got.Event > want.Event && got.Event-want.Event < uint64(busy) {
						// (the scan stopped at a bridge event inside block got.Block+1: some, not all, of its events were counted)
						key = "cursor-keeps-counters-of-a-partly-scanned-block"
					}
					f := pbt.Failf(key, "history %s; stored position %d, node height %d, hub acknowledged nonce %d: persisted cursor {block %d, next event %d, next batch %d, valset %d} but %d bridge events lie at or below block %d, so it must be {next event %d, next batch %d, valset %d}",
						describe(c), h0, b, ack, got.Block, got.Event, got.Batch, got.Valset, want.Event-startEvent, got.Block, want.Event, want.Batch, want.Valset)
					if key == "cursor-inconsistent" {
						return f
					}
					// recorded finding: remember it, keep enumerating so that anything else still surfaces
					if partly == nil {
						partly = f
					}
					continue
				}
				if mem != got && err == nil {
					return pbt.Failf("memory-differs-from-file", "stored position %d, node height %d, ack %d: returned cursor %+v, persisted %+v", h0, b, ack, mem, got)
				}
			}
		}
	}
	// a crash while the status file is being rewritten leaves a truncated or empty file: the connector must fall
	// back to a consistent cursor (its configured start), never to a cursor that numbers events differently
	full, _ := json.Marshal(map[string]uint64{"last_checked_minter_block": n, "last_event_nonce": 99, "last_batch_nonce": 9, "last_valset_nonce": 9})
	for _, cut := range []int{0, 1, len(full) / 2, len(full) - 1} {
		ioutil.WriteFile(file, full[:cut], 0o644)
		nd.SetLatest(n)
		ctx := mctx.Context{MinterMultisigAddr: multisig, MinterClient: client, Logger: log.NewNopLogger()}
		ctx.LoadStatus(file, cfg)
		ctx = minter.GetLatestMinterBlockAndNonce(ctx, 0)
		restarts++
		got, err := readStatus(file)
		if err != nil {
			got = cursor{ctx.LastCheckedMinterBlock(), ctx.LastEventNonce(), ctx.LastBatchNonce(), ctx.LastValsetNonce()}
		}
		if got.Block > n || got.Block < c.StartBlock {
			return pbt.Failf("cursor-after-torn-status-file", "status file truncated to %d bytes: persisted last-checked block %d, configured start %d, node height %d", cut, got.Block, c.StartBlock, n)
		}
		if want := refCursor(c, got.Block); got != want {
			return pbt.Failf("cursor-after-torn-status-file", "history %s; status file truncated to %d of %d bytes (crash while it was being rewritten): after the restart the cursor is {block %d, next event %d, next batch %d, valset %d}, the consistent one is {next event %d, next batch %d, valset %d}",
				describe(c), cut, len(full), got.Block, got.Event, got.Batch, got.Valset, want.Event, want.Batch, want.Valset)
		}
	}
	rec.NonTrivial = insideBusy > 0
	rec.Shape = describe(c) + fmt.Sprint(c.StartBlock)
	defer func() { rec.Label("restarts=" + fmt.Sprint(restarts/100*100) + "+") }()
	if partly != nil {
		rec.Label("stop-inside-multi-event-block")
		return partly
	}
	rec.Label("restarts=" + fmt.Sprint(restarts/100*100) + "+")
	if insideBusy > 0 {
		rec.Label("stop-inside-multi-event-block")
	}
	return nil
}

func describe(c *CursorCase) string {
	var s []string
	for _, b := range c.Blocks {
		var k []string
		for _, t := range b.Txs {
			k = append(k, t.Kind[:1])
		}
		s = append(s, strings.Join(k, ""))
	}
	return "[" + strings.Join(s, "|") + "]"
}

func TestC20(t *testing.T) {
	(&pbt.Check{
		ID:          "C20",
		Part:        "cursor",
		Level:       "fault_enumeration",
		Rule:        "generated Minter block histories (1..14 blocks, 0..4 relevant txs per block: valid deposits, invalid commands, sends elsewhere, multisends from the multisig and from others, edit-multisig with numeric / non-numeric payload) served by a scripted HTTP node; per history EVERY stored cursor position (incl. none) x EVERY node height x EVERY acknowledged nonce is restarted (exhaustive enumeration of stop points); non-trivial = a history with a restart that stops before a block holding >=2 bridge events; distinct = distinct history",
		Gen:         genCursorCase,
		New:         func() interface{} { return &CursorCase{} },
		Run:         runCursorCase,
		Assumptions: []string{"the state persisted at a crash is the last Commit, or a torn status file (empty / truncated) when the crash hits the rewrite", "the main loop (package main, needs flag parsing and a live Tendermint RPC) is represented by its cursor invariant: a stored cursor is consistent at some block", "hub acknowledgements range over every nonce from 0 to the number of events"},
	}).Main(t)
}

// ---------------------------------------------------------------- command validation

type CmdCase struct {
	Type      string `json:"type"`
	Recipient string `json:"recipient"`
	Fee       string `json:"fee"`
	Amount    string `json:"amount"`
}

func genCmdCase(t *rapid.T) interface{} {
	c := &CmdCase{}
	c.Type = rapid.SampledFrom([]string{command.TypeSendToEth, command.TypeSendToBsc, command.TypeSendToHub, command.TypeSendToHub, "send_to_minter", ""}).Draw(t, "type")
	c.Recipient = rapid.SampledFrom([]string{
		"0x58BD8047F441B9D511aEE9c581aEb1caB4FE0b6d", "58bd8047f441b9d511aee9c581aeb1cab4fe0b6d", "0x58BD8047F441B9D511aEE9c581aEb1caB4FE0b6", "0xZZBD8047F441B9D511aEE9c581aEb1caB4FE0b6d", "",
		"@hub", "@cosmos", "@hubbad", "Mx58bd8047f441b9d511aee9c581aeb1cab4fe0b6d", "@hubempty", "@hublong", "@hub32",
	}).Draw(t, "rcpt")
	switch c.Recipient {
	case "@hubempty": // well-formed bech32 with the hub prefix and no address bytes at all
		c.Recipient, _ = bech32.ConvertAndEncode("hub", []byte{})
	case "@hublong": // ... and with more bytes than an account address may have
		c.Recipient, _ = bech32.ConvertAndEncode("hub", make([]byte, 256))
	case "@hub32": // a 32-byte account address (valid)
		c.Recipient, _ = bech32.ConvertAndEncode("hub", []byte("verif-32-byte-account-address-01"))
	case "@hub":
		c.Recipient = hubAddr
	case "@cosmos":
		c.Recipient = cosmosAddr
	case "@hubbad":
		c.Recipient = hubBadSum
	}
	amt := new(big.Int)
	switch rapid.IntRange(0, 3).Draw(t, "amtclass") {
	case 0:
		amt.SetInt64(rapid.Int64Range(0, 300).Draw(t, "amt"))
	case 1:
		amt.Exp(big.NewInt(10), big.NewInt(int64(rapid.IntRange(0, 30).Draw(t, "e"))), nil)
	default:
		amt.SetInt64(rapid.Int64Range(1, 1<<62).Draw(t, "amt"))
	}
	c.Amount = amt.String()
	bound := new(big.Int).Sub(amt, new(big.Int).Quo(amt, big.NewInt(100)))
	switch rapid.IntRange(0, 9).Draw(t, "feeclass") {
	case 0:
		c.Fee = "0"
	case 1, 2, 3:
		c.Fee = new(big.Int).Add(bound, big.NewInt(rapid.Int64Range(-2, 2).Draw(t, "off"))).String()
	case 4:
		c.Fee = "-" + fmt.Sprint(rapid.Int64Range(1, 1000).Draw(t, "neg"))
	case 5:
		c.Fee = rapid.SampledFrom([]string{"", "+5", "007", "1.5", "1e3", " 5", "0x10", "five", "-0"}).Draw(t, "odd")
	case 6:
		c.Fee = new(big.Int).Lsh(big.NewInt(1), uint(rapid.IntRange(60, 300).Draw(t, "bits"))).String()
	default:
		c.Fee = fmt.Sprint(rapid.Int64Range(0, 1<<40).Draw(t, "fee"))
	}
	return c
}

func isDecimalNonNeg(s string) (*big.Int, bool) {
	if s == "" {
		return nil, false
	}
	for _, r := range s {
		if r < '0' || r > '9' {
			return nil, false
		}
	}
	x, ok := new(big.Int).SetString(s, 10)
	return x, ok
}

func runCmdCase(ci interface{}, rec *pbt.Rec) *pbt.Failure {
	c := ci.(*CmdCase)
	amt, _ := new(big.Int).SetString(c.Amount, 10)
	cmd := &command.Command{Type: c.Type, Recipient: c.Recipient, Fee: c.Fee}
	var err error
	func() {
		defer func() {
			if r := recover(); r != nil {
				err = fmt.Errorf("panic: %v", r)
			}
		}()
		err = cmd.ValidateAndComplete(sdk.NewIntFromBigInt(amt))
	}()
	if err != nil && strings.HasPrefix(err.Error(), "panic") {
		return pbt.Failf("command-validation-panics", "ValidateAndComplete(%+v, %s): %v", c, c.Amount, err)
	}
	// reference
	rcptOK := false
	switch c.Type {
	case command.TypeSendToEth, command.TypeSendToBsc:
		rcptOK = common.IsHexAddress(c.Recipient)
	case command.TypeSendToHub:
		_, e := sdk.AccAddressFromBech32(c.Recipient)
		rcptOK = e == nil
	}
	fee, feeInt := isDecimalNonNeg(c.Fee)
	bound := new(big.Int).Sub(amt, new(big.Int).Quo(amt, big.NewInt(100)))
	feeOK := feeInt && fee.BitLen() <= 255 && fee.Cmp(bound) < 0
	want := rcptOK && feeOK
	near := feeInt && new(big.Int).Sub(fee, bound).CmpAbs(big.NewInt(1)) <= 0
	rec.NonTrivial = near || (rcptOK && !feeOK)
	if near {
		rec.Label("fee-at-bound")
	}
	got := err == nil
	// spellings the SDK integer parser also accepts as the same non-negative integer are not the statement's concern
	lenient := false
	if !feeInt && rcptOK {
		if x, ok := sdk.NewIntFromString(c.Fee); ok && !x.IsNegative() && x.BigInt().Cmp(bound) < 0 {
			lenient = true
		}
	}
	if got && !want && !lenient {
		key := "invalid-command-accepted"
		if strings.HasPrefix(c.Fee, "-") && rcptOK {
			key = "negative-fee-accepted"
		}
		return pbt.Failf(key, "command {type %q recipient %q fee %q} for amount %s was accepted (recipient valid: %v, fee a non-negative integer below amount less 1%% = %s: %v)", c.Type, c.Recipient, c.Fee, c.Amount, rcptOK, bound, feeOK)
	}
	if !got && want {
		return pbt.Failf("valid-command-refused", "command {type %q recipient %q fee %q} for amount %s was refused: %v", c.Type, c.Recipient, c.Fee, c.Amount, err)
	}
	if got && (c.Type == command.TypeSendToEth || c.Type == command.TypeSendToBsc) && cmd.Recipient != common.HexToAddress(c.Recipient).Hex() {
		return pbt.Failf("recipient-not-normalised", "accepted recipient %q left as %q", c.Recipient, cmd.Recipient)
	}
	return nil
}

func checkC20Cmd() *pbt.Check {
	return &pbt.Check{
		ID:    "C20",
		Part:  "cmd",
		Level: "fault_enumeration",
		Rule:  "command payloads: types (three valid, unknown, empty), recipients (hex with/without prefix, short, non-hex, bech32 with right/wrong prefix, bad checksum, Minter address), fee strings (0, around the bound amount-amount/100 +-2, negative, '+5', leading zeros, decimals, exponent, spaces, hex, huge) x amounts 0..2^62 and powers of ten; accepted iff recipient valid for the type and fee a non-negative integer below the bound; non-trivial = fee within 1 of the bound, or a valid recipient with an invalid fee; distinct = distinct case JSON",
		Gen:   genCmdCase,
		New:   func() interface{} { return &CmdCase{} },
		Run:   runCmdCase,
	}
}

func TestC20Cmd(t *testing.T) { checkC20Cmd().Main(t) }
