package propsconn

import (
	"encoding/hex"
	"fmt"
	"os"
	"os/exec"
	"path/filepath"
	"strings"
	"testing"

	sdk "github.com/cosmos/cosmos-sdk/types"
	ethcrypto "github.com/ethereum/go-ethereum/crypto"
	"pgregory.net/rapid"

	mtypes "github.com/MinterTeam/mhub2/module/x/mhub2/types"

	"verifharness/pbt"
	"verifharness/sim"
)

// C17 with the real keys-generator binary: a signature it produces for (validator account, nonce) must be
// accepted by the hub for exactly the transaction whose account sequence is that nonce, and for no other.

type ToolCase struct {
	Val      int  `json:"val"`
	Key      int  `json:"key"`
	Chain    int  `json:"chain"`
	Sequence int  `json:"sequence"`  // account sequence before the registering transaction
	Offset   int  `json:"offset"`    // nonce handed to the tool = sequence + offset
	OtherVal bool `json:"other_val"` // the tool is given another validator's account
}

func genToolCase(t *rapid.T) interface{} {
	return &ToolCase{
		Val: rapid.IntRange(0, 2).Draw(t, "val"), Key: rapid.IntRange(0, 5).Draw(t, "key"), Chain: rapid.IntRange(0, 2).Draw(t, "chain"),
		Sequence: rapid.SampledFrom([]int{0, 0, 1, 2, 7, 100, 65535}).Draw(t, "seq"),
		Offset:   rapid.SampledFrom([]int{0, 0, 0, 0, 1, -1, 2}).Draw(t, "off"),
		OtherVal: rapid.IntRange(0, 7).Draw(t, "other") == 0,
	}
}

func toolPath() string {
	return filepath.Join(pbt.BinDir(), "keysgen")
}

func runToolCase(ci interface{}, rec *pbt.Rec) *pbt.Failure {
	c := ci.(*ToolCase)
	if _, err := os.Stat(toolPath()); err != nil {
		return pbt.Failf("harness", "keys-generator binary missing at %s (the driver builds it)", toolPath())
	}
	chain := []string{"ethereum", "bsc", "minter"}[c.Chain%3]
	cfg := sim.Config{Tokens: []sim.TokenCfg{{Id: 1, Denom: "hub", Chain: "minter", ExtId: "1", Decimals: 18, Commission: "0.01"}},
		Vals:   []sim.ValCfg{{Power: 5, Bonded: true}, {Power: 6, Bonded: true}, {Power: 7, Bonded: true}},
		Prices: []sim.PriceCfg{{Name: "hub", Value: "1"}}}
	h := sim.NewHub(cfg)
	if err := h.Begin(1, 1600000005); err != nil {
		return nil
	}
	val := sim.ValAddr(c.Val)
	acc := sdk.AccAddress(val)
	signFor := acc
	if c.OtherVal {
		signFor = sdk.AccAddress(sim.ValAddr((c.Val + 1) % 3))
	}
	nonce := c.Sequence + c.Offset
	if nonce < 0 {
		nonce = 0
	}
	key := sim.EthKey(200+c.Key, "tool", 0)
	out, err := exec.Command(toolPath(), "make_delegate_sign", hex.EncodeToString(ethcrypto.FromECDSA(key)), signFor.String(), fmt.Sprint(nonce)).CombinedOutput()
	if err != nil {
		return pbt.Failf("tool-failed", "keys-generator make_delegate_sign: %v: %s", err, out)
	}
	sigHex := strings.TrimSpace(string(out))
	sig, err := hex.DecodeString(strings.TrimPrefix(sigHex, "0x"))
	if err != nil || len(sig) != 65 {
		return pbt.Failf("tool-output", "keys-generator printed %q", sigHex)
	}
	ctx := h.Ctx()
	a := h.Acc.GetAccount(ctx, acc)
	a.SetSequence(uint64(c.Sequence) + 1) // the ante handler has incremented the sequence when the message runs
	h.Acc.SetAccount(ctx, a)
	ext := ethcrypto.PubkeyToAddress(key.PublicKey)
	res := h.Deliver(&mtypes.MsgDelegateKeys{ValidatorAddress: val.String(), OrchestratorAddress: sim.OrchAddr(c.Val).String(), ExternalAddress: ext.Hex(), EthSignature: sig, ChainId: chain})
	want := nonce == c.Sequence && !c.OtherVal
	rec.NonTrivial = true
	rec.Label(fmt.Sprintf("expected-accept=%v", want))
	if want && res.Err != nil {
		return pbt.Failf("tool-signature-refused", "the signature keys-generator made for (%s, nonce %d) is refused by the hub in the transaction with account sequence %d: %v", signFor, nonce, c.Sequence, res.Err)
	}
	if !want && res.Err == nil {
		return pbt.Failf("tool-signature-accepted-for-other-nonce", "the signature keys-generator made for (%s, nonce %d) is accepted for validator %s in the transaction with account sequence %d", signFor, nonce, acc, c.Sequence)
	}
	return nil
}

func TestC17Tool(t *testing.T) {
	(&pbt.Check{
		ID:          "C17",
		Part:        "tool",
		Rule:        "the real keys-generator binary (built from /repo/keys-generator) signs (validator account, nonce) for generated keys, validators, chains, account sequences 0..65535 and nonce offsets -1..+2 or another validator's account; the hub must accept the registration iff the nonce equals the account sequence before the transaction and the account is the validator's own; every case is non-trivial; distinct = distinct case JSON",
		Gen:         genToolCase,
		New:         func() interface{} { return &ToolCase{} },
		Run:         runToolCase,
		Assumptions: []string{"the test process uses the production bech32 prefix (hub), as keys-generator does"},
	}).Main(t)
}
