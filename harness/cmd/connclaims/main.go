// connclaims exposes the connector's claim builder (minter-connector/cosmos.CreateClaims) to the checks.
// Package cosmos reads its configuration in a package-level variable (flags + config file), so it cannot be
// imported into a test binary; this tiny program is started with `-config <file>` instead.
// stdin: {"orc": "<bech32>", "deposits": [...], "batches": [...], "valsets": [...]}; stdout: JSON array of messages.
package main

import (
	"encoding/json"
	"fmt"
	"os"

	"github.com/MinterTeam/mhub2/minter-connector/cosmos"
	"github.com/MinterTeam/mhub2/module/app"
	sdk "github.com/cosmos/cosmos-sdk/types"
)

type input struct {
	Orc      string           `json:"orc"`
	Deposits []cosmos.Deposit `json:"deposits"`
	Batches  []cosmos.Batch   `json:"batches"`
	Valsets  []cosmos.Valset  `json:"valsets"`
}

func main() {
	var in input
	if err := json.NewDecoder(os.Stdin).Decode(&in); err != nil {
		fmt.Fprintln(os.Stderr, "bad input:", err)
		os.Exit(2)
	}
	sdk.GetConfig().SetBech32PrefixForAccount("hub", "hubpub")
	orc, err := sdk.AccAddressFromBech32(in.Orc)
	if err != nil {
		fmt.Fprintln(os.Stderr, "bad orchestrator address:", err)
		os.Exit(2)
	}
	msgs := cosmos.CreateClaims(orc, in.Deposits, in.Batches, in.Valsets)
	enc := app.MakeEncodingConfig()
	var out []json.RawMessage
	for _, m := range msgs {
		b, err := enc.Marshaler.MarshalInterfaceJSON(m)
		if err != nil {
			fmt.Fprintln(os.Stderr, "marshal:", err)
			os.Exit(2)
		}
		out = append(out, b)
	}
	json.NewEncoder(os.Stdout).Encode(out)
}
