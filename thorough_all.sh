#!/bin/bash
# runs the thorough tier of every check once (sequential; each uses 16 processes)
cd "$(dirname "$(readlink -f "$0")")"
for id in $(python3 -c "import json;print(' '.join(c['property_id'] for c in json.load(open('MANIFEST.json'))['checks']))"); do
  /usr/bin/time -f "%e s" ./check $id thorough 2>&1 | tail -3
done
