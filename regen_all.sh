#!/bin/bash
# regenerates every evidence file with the quick tier on the current tree (sequential)
cd "$(dirname "$(readlink -f "$0")")"
for id in $(python3 -c "import json;print(' '.join(c['property_id'] for c in json.load(open('MANIFEST.json'))['checks']))"); do
  ./check $id ${1:-quick} | tail -1
done
./validate.py | grep -v " ok$"
