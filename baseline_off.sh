#!/bin/bash
# Runs the repository's pinned baseline suite with the verif build tag OFF
# (same command as /root/.vp/BASELINE.json) and prints a pass/fail summary.
export GOPROXY=off GOSUMDB=off GOTOOLCHAIN=local
. /w/out/goenv.sh 2>/dev/null || gomodflag() { echo "-mod=mod"; }
tmp=$(mktemp)
for m in $(cat /w/out/gomods.txt 2>/dev/null || echo ./module); do
  MF=$(cd /repo/$m && gomodflag)
  (cd /repo/$m && go test $MF -json -vet=off -count=1 -timeout 25m ./... 2>/dev/null) >> "$tmp"
done
python3 - "$tmp" <<'PY'
import json,sys
base=set(json.load(open('/root/.vp/BASELINE.json'))['stable_pass'])
res={}
for l in open(sys.argv[1]):
    try: e=json.loads(l)
    except Exception: continue
    if e.get('Test') and e.get('Action') in('pass','fail','skip'):
        res[e['Package']+'::'+e['Test']]=e['Action']
ok=[t for t in base if res.get(t)=='pass']
bad=[t for t in base if res.get(t)!='pass']
print("baseline: %d/%d stable tests pass"%(len(ok),len(base)))
for t in sorted(bad): print("  NOT PASSING:",t,res.get(t))
sys.exit(0 if not bad else 1)
PY
rc=$?
rm -f "$tmp"
exit $rc
