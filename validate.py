#!/opt/veriftools/pyvenv/bin/python
import json, sys, glob, jsonschema
es = json.load(open('/root/.vp/EVIDENCE.schema.json'))
ms = json.load(open('/root/.vp/MANIFEST.schema.json'))
ok = True
try:
    m = json.load(open('/verif/MANIFEST.json')); jsonschema.validate(m, ms); print('MANIFEST ok,', len(m['checks']), 'checks')
except Exception as e:
    ok = False; print('MANIFEST invalid:', e)
for f in sorted(glob.glob('/verif/evidence/*.json')):
    try:
        jsonschema.validate(json.load(open(f)), es); print(f, 'ok')
    except Exception as e:
        ok = False; print(f, 'INVALID', str(e)[:300])
sys.exit(0 if ok else 1)
