#!/opt/veriftools/pyvenv/bin/python
import json, sys, glob, jsonschema
import os
HERE = os.path.dirname(os.path.abspath(__file__))
es = json.load(open('/root/.vp/EVIDENCE.schema.json'))
ms = json.load(open('/root/.vp/MANIFEST.schema.json'))
ok = True
try:
    m = json.load(open(os.path.join(HERE, 'MANIFEST.json'))); jsonschema.validate(m, ms); print('MANIFEST ok,', len(m['checks']), 'checks')
except Exception as e:
    ok = False; print('MANIFEST invalid:', e)
for f in sorted(glob.glob(os.path.join(HERE, 'evidence', '*.json'))):
    try:
        jsonschema.validate(json.load(open(f)), es); print(f, 'ok')
    except Exception as e:
        ok = False; print(f, 'INVALID', str(e)[:300])
try:
    for c in m['checks']:
        if not os.path.exists(os.path.join(HERE, 'evidence', c['property_id'] + '.json')):
            ok = False; print('no evidence file for', c['property_id'])
except Exception as e:
    ok = False; print('evidence presence check failed:', e)
# every open entry of known_findings.json must have produced its KNOWN-FINDING line in the committed (clean-tree) evidence
try:
    known = json.load(open(os.path.join(HERE, 'known_findings.json')))
    for k in known:
        if k.get('status') != 'open':
            continue
        ev = json.load(open(os.path.join(HERE, 'evidence', k['property'] + '.json')))
        txt = json.dumps(ev)
        if k['what'][:80] not in txt:
            ok = False; print('open finding without KNOWN-FINDING line in evidence:', k['property'], k['key'])
except Exception as e:
    ok = False; print('known findings check failed:', e)
sys.exit(0 if ok else 1)
