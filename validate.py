#!/opt/veriftools/pyvenv/bin/python
import json, sys, glob, jsonschema
import os
HERE = os.path.dirname(os.path.abspath(__file__))
es = json.load(open('/root/.vp/EVIDENCE.schema.json'))
ms = json.load(open('/root/.vp/MANIFEST.schema.json'))
ok = True
try:
    m = json.load(open(os.path.join(HERE, 'MANIFEST.json'))); jsonschema.validate(m, ms); print('MANIFEST ok,', len(m['checks']), 'checks')
except Exception as e:
    ok = False; print('MANIFEST invalid:', e)
for f in sorted(glob.glob(os.path.join(HERE, 'evidence', '*.json'))):
    try:
        jsonschema.validate(json.load(open(f)), es); print(f, 'ok')
    except Exception as e:
        ok = False; print(f, 'INVALID', str(e)[:300])
sys.exit(0 if ok else 1)
